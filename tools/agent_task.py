#!/usr/bin/env python3
"""Writes the task text for one seeded-breakage sub-agent (given only a property record and a scratch worktree).
usage: agent_task.py <Cxx> <worktree dir>   (prints the task)"""
import json, sys
pid, wt = sys.argv[1], sys.argv[2]
STYLE = sys.argv[3] if len(sys.argv) > 3 else "edit"
p = [json.loads(l) for l in open('/verif/properties.jsonl') if json.loads(l)['id'] == pid][0]
NOTE = open('/verif/tools/agent_diversity_note.txt').read().strip()
if STYLE == "edit":
    DIV = f"""DIVERSITY NOTE (important): earlier rounds already produced the following changes, so do NOT produce them or close relatives again:
{NOTE}
Find something ELSE: a different code path, a different operator combination (the property may be broken by how two operators of the crate interact), a different kind of edit. It should manifest within ONE subscription on ONE thread with conformant, synchronously greeting peers (for the thread properties: a NEW interleaving window). Produce up to THREE variants (OUT/A, OUT/B, OUT/C) if you can; if after a serious search you cannot find a realistic new change for this property, say so plainly instead of re-using a listed family."""
else:
    DIV = """STYLE OF CHANGE FOR THIS ROUND (important): earlier rounds produced many small local edits (one moved line, one dropped check). This time act as a maintainer who REWRITES one of the anchored operators substantially - for example: replace the collection of atomics/ArcSwap slots by one `Mutex<State>` struct or by an explicit `enum` state machine; restructure the handler into helper closures; replace recursion by a loop/trampoline; merge or split match arms; change the representation of member bookkeeping (Vec of enum states instead of counters); use std types instead of arc-swap - and in doing so makes ONE subtle slip, so that the rewritten operator is behaviourally identical to the original EXCEPT in a specific situation (a particular nesting/re-entrancy, a particular order of ends/errors/disposals, a boundary value of a parameter, an action at a particular phase). The rewrite should be the kind of diff a reviewer would skim and approve (30-150 changed lines), and must not deadlock or panic in ordinary use (be careful with locks held across calls into peers: the existing tests deliver re-entrantly). Produce up to TWO such rewrites (OUT/A, OUT/B), of different operators or with different slips. It should manifest within ONE subscription on ONE thread with conformant, synchronously greeting peers (for the thread properties: under a specific interleaving)."""
print(f"""You are helping to evaluate a test suite for the Rust crate `callbag` (a small port of the callbag reactive/iterable stream spec: sources, sinks and operators over a five-message protocol Handshake/Data/Pull/Error/Terminate).

You have your own scratch git worktree of the crate at {wt} (a checkout of its current HEAD). Work ONLY inside {wt}. Do not read or touch /repo, /verif or any other directory outside {wt} (the cargo registry in ~/.cargo is fine). There is no network: always pass --offline to cargo and set CARGO_TARGET_DIR={wt}/target. A Cargo.lock is already in place.

Here is a semantic property the crate is supposed to satisfy (JSON record):

{json.dumps(p, indent=1)}

YOUR TASK: produce a realistic source change to the crate (files under {wt}/src only; do not edit src/verif.rs) that BREAKS this property while (a) the crate still compiles (also with `--features tracing`), and (b) the crate's existing test suite still passes completely: `cd {wt} && CARGO_TARGET_DIR={wt}/target cargo test --workspace --no-fail-fast --offline` must report the same 61 passing tests, 0 failures. Think of the kind of bug a maintainer could plausibly introduce in a refactoring or an "optimisation" (an off-by-one, a reordered pair of statements, a state variable hoisted or not reset, a missing check in one branch, a relaxed atomic sequence, two sites that each look fine alone), NOT sabotage such as `if x == 42`.

IMPORTANT: the change must need something SPECIFIC in order to manifest - a particular interleaving or nesting of events, a multi-step sequence of operations, an unusual input or parameter, a fault at a particular point, a second subscription, a sink that reacts from inside a handler, two cooperating sites - not something that ordinary straightforward use of the operator would expose at once. The existing tests must keep passing precisely because they do not exercise that situation.

{DIV}

Also write a DEMONSTRATION: a new integration test file {wt}/tests/seed_demo.rs (register it in Cargo.toml with a [[test]] entry if required-features are needed, mirroring the existing entries; or use an example program if easier) using only the crate's public API, that FAILS with your change applied and PASSES on the unchanged HEAD. Keep it self-contained (hand-written source/sink closures are fine; look at the existing tests under {wt}/tests for how callbags are written by hand; `Message`, `Source`, `Sink` and `From<closure>` are public). For thread-interleaving properties a demonstration that forces the interleaving by hand (barriers/sleeps) or that fails with high probability over many iterations is acceptable; say which.

Procedure you must follow and report:
1. Read the relevant source under {wt}/src and the existing tests.
2. Make the change. Save it as {wt}/OUT/A/patch.diff using `git -C {wt} diff -- src > {wt}/OUT/A/patch.diff` (source change only; the demo is saved separately).
3. Save the demonstration as {wt}/OUT/A/seed_demo.rs (plus {wt}/OUT/A/cargo_toml_addition.txt if you needed a [[test]] entry).
4. Verify yourself and record the exact commands and their outcomes in {wt}/OUT/A/NOTES.md: (i) with the change: the full existing suite passes (61 tests) and the demo fails; (ii) after reverting the src change with `git -C {wt} checkout -- src` (do NOT use git stash: it is shared with other worktrees): the demo passes. Also explain in NOTES.md in 5-10 lines what the change is, why the existing tests do not notice, and exactly what is needed for it to manifest.
5. If you have time left, produce a second, DIFFERENT change (different mechanism or different operator) the same way under {wt}/OUT/B/, and a third under {wt}/OUT/C/.
6. Leave {wt}/src in its ORIGINAL state at the end (git -C {wt} checkout -- src Cargo.toml; remove tests/seed_demo.rs), so only the OUT directory holds your results.

Your final message should list, per variant: the files written, a one-paragraph description of the change, what it needs to manifest, and the verification results (test counts). Be honest if something could not be verified.""")
