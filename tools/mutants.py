#!/usr/bin/env python3
"""Sensitivity runner: applies each small source mutation from mutants/mutants.json to /repo's working
tree, runs the listed quick checks, and reverts (git checkout) afterwards. A mutant is KILLED by a
property when the check exits 1 with a VIOLATION line. Usage: mutants.py [id-prefix ...] [--all-props]"""
import json, subprocess, sys, os, time
V = os.path.dirname(os.path.dirname(os.path.abspath(__file__)))
specs = json.load(open(f"{V}/mutants/mutants.json"))
sel = [a for a in sys.argv[1:] if not a.startswith("--")]
def sh(cmd, **kw):
    return subprocess.run(cmd, shell=True, capture_output=True, text=True, **kw)
def clean():
    sh("git -C /repo checkout -- .")
dirty = sh("git -C /repo status --porcelain").stdout.strip()
if dirty:
    print("refusing: /repo has uncommitted changes:\n" + dirty); sys.exit(2)
results = {}
try:
    for m in specs:
        if sel and not any(m["id"].startswith(s) for s in sel):
            continue
        path = "/repo/" + m["file"]
        src = open(path).read()
        edits = m.get("edits") or [{"old": m["old"], "new": m["new"]}]
        bad = [e["old"][:40] for e in edits if src.count(e["old"]) != m.get("count", 1)]
        if bad:
            print(f'{m["id"]}: pattern not found exactly once: {bad}, skipped'); continue
        for e in edits:
            src = src.replace(e["old"], e["new"])
        open(path, "w").write(src)
        row = {}
        for p in m["props"]:
            t = time.time()
            r = sh(f"CBV_SCALE={m.get('scale',1)} VERIF_OUT=/tmp/cbv-mut ./check {p} quick", cwd=V)
            killed = r.returncode == 1 and "VIOLATION property=" in r.stdout
            row[p] = "KILLED" if killed else ("ERR%d" % r.returncode if r.returncode not in (0, 1) else "survived")
            sig = [l for l in r.stdout.splitlines() if l.startswith("C") and ":" in l][:1]
            print(f'{m["id"]:28s} {p}: {row[p]:9s} {time.time()-t:5.1f}s  {sig[0][:110] if sig else ""}', flush=True)
            if r.returncode not in (0, 1):
                print(r.stderr[-800:])
        results[m["id"]] = row
        clean()
finally:
    clean()
    sh("rm -rf /tmp/cbv-mut")
json.dump(results, open(f"{V}/mutants/last_results.json", "w"), indent=1)
