#!/bin/bash
# usage: tools/matrix.sh <ids...>   reduced-scale cross-property matrix over the world-engine properties (needs /repo idle)
# create /var/tmp/cbv-matrix.stop to stop after the current variant
cd /verif
PROPS=C01,C02,C03,C04,C05,C07,C08,C09,C10,C11,C12,C13,C14,C15,C17
for id in "$@"; do
  [ -e /var/tmp/cbv-matrix.stop ] && { echo "stopped before $id"; break; }
  CBV_WATCHDOG_S=20 CBV_SCALE=0.25 CBV_NO_FUZZ=1 python3 tools/seeded.py run $id --props $PROPS 2>&1 | grep -E "caught|inconclusive|does not apply"
  echo "done $id"
done
echo "matrix finished"
