#!/usr/bin/env python3
"""Seeded-change bookkeeping.
  seeded.py import <id> <outdir> <property>   copy patch.diff/demo/notes from a sub-agent's OUT dir into seeded/<id>/
  seeded.py verify <id>...                    confirm in a scratch worktree: suite passes with the change, demo fails with it, passes without
  seeded.py run <id>... [--props C01,C02]     apply to /repo, run quick checks, undo; record which checks catch it
"""
import json, os, shutil, subprocess, sys, time, glob
V = os.path.dirname(os.path.dirname(os.path.abspath(__file__)))
SCR = "/var/tmp/cbv-seed-verify"

def sh(cmd, cwd=None, env=None, timeout=3600):
    e = dict(os.environ); e.update(env or {})
    return subprocess.run(cmd, shell=True, cwd=cwd, env=e, capture_output=True, text=True, timeout=timeout)

def meta_path(i): return f"{V}/seeded/{i}/meta.json"
def load(i): return json.load(open(meta_path(i)))
def save(i, m): json.dump(m, open(meta_path(i), "w"), indent=1)

def do_import(i, out, prop):
    d = f"{V}/seeded/{i}"; os.makedirs(d, exist_ok=True)
    for f in os.listdir(out):
        if os.path.isfile(f"{out}/{f}"): shutil.copy(f"{out}/{f}", f"{d}/{f}")
    m = {"id": i, "breaks_property": prop, "source": "independent sub-agent given only the property text and a scratch worktree",
         "needs_to_manifest": "", "verified": None, "detected_by": {}}
    if os.path.exists(meta_path(i)):
        old = load(i); old.update({k: v for k, v in m.items() if k not in old}); m = old
    save(i, m)

def tests_summary(out):
    passed = failed = 0
    for l in out.splitlines():
        if l.startswith("test result:"):
            w = l.split()
            passed += int(w[3]); failed += int(w[5])
    return passed, failed

def do_verify(ids):
    if not os.path.exists(SCR):
        r = sh(f"git -C /repo worktree add --detach {SCR} HEAD")
        assert r.returncode == 0, r.stderr
        shutil.copy("/repo/Cargo.lock", f"{SCR}/Cargo.lock")
    env = {"CARGO_TARGET_DIR": f"{SCR}/target", "CARGO_NET_OFFLINE": "true"}
    for i in ids:
        d = f"{V}/seeded/{i}"; m = load(i)
        sh("git checkout -- . && git clean -fdq tests", cwd=SCR)
        r = sh(f"git apply {d}/patch.diff", cwd=SCR)
        if r.returncode != 0:
            m["verified"] = {"ok": False, "why": "patch does not apply: " + r.stderr[-300:]}; save(i, m); print(i, "PATCH DOES NOT APPLY"); continue
        # existing suite with the change (demo not yet present)
        r = sh("cargo test --workspace --no-fail-fast --offline", cwd=SCR, env=env)
        p, f = tests_summary(r.stdout)
        builds_tracing = sh("cargo build --offline --features tracing", cwd=SCR, env=env).returncode == 0
        # demo with the change
        shutil.copy(f"{d}/seed_demo.rs", f"{SCR}/tests/seed_demo.rs")
        add = f"{d}/cargo_toml_addition.txt"
        if os.path.exists(add):
            open(f"{SCR}/Cargo.toml", "a").write("\n" + open(add).read() + "\n")
        feat = m.get("demo_features", "")
        fl = f" --features {feat}" if feat else ""
        r1 = sh("cargo test --offline --test seed_demo" + fl, cwd=SCR, env=env)
        d1 = tests_summary(r1.stdout)
        # demo without the change
        sh(f"git apply -R {d}/patch.diff", cwd=SCR)
        r2 = sh("cargo test --offline --test seed_demo" + fl, cwd=SCR, env=env)
        d2 = tests_summary(r2.stdout)
        ok = (p == 61 and f == 0 and builds_tracing and (d1[1] > 0 or r1.returncode != 0) and d2[1] == 0 and r2.returncode == 0)
        m["verified"] = {"ok": ok, "suite_with_change": {"passed": p, "failed": f}, "builds_with_tracing": builds_tracing,
                         "demo_with_change": {"passed": d1[0], "failed": d1[1], "exit": r1.returncode},
                         "demo_without_change": {"passed": d2[0], "failed": d2[1], "exit": r2.returncode},
                         "commands": ["git apply patch.diff", "cargo test --workspace --no-fail-fast --offline", "cargo build --offline --features tracing",
                                      "cp seed_demo.rs tests/ && cargo test --offline --test seed_demo" + fl, "git apply -R patch.diff && cargo test --offline --test seed_demo" + fl]}
        save(i, m)
        print(i, "VERIFIED" if ok else "NOT VERIFIED", m["verified"]["suite_with_change"], d1, d2, flush=True)
        sh("git checkout -- . && git clean -fdq tests", cwd=SCR)

def do_run(ids, props):
    dirty = sh("git -C /repo status --porcelain").stdout.strip()
    if dirty: print("refusing: /repo dirty"); sys.exit(2)
    try:
        for i in ids:
            d = f"{V}/seeded/{i}"; m = load(i)
            r = sh(f"git -C /repo apply {d}/patch.diff")
            if r.returncode != 0: print(i, "patch does not apply to /repo", r.stderr[-200:]); continue
            ps = props or [m["breaks_property"]]
            scale = os.environ.get("CBV_SCALE")
            for p in ps:
                # a reduced-scale matrix run never overwrites a full-scale verdict
                if scale and p in m["detected_by"] and "scale" not in m["detected_by"][p]:
                    continue
                t = time.time()
                r = sh(f"VERIF_OUT=/var/tmp/cbv-seed-out ./check {p} quick", cwd=V)
                killed = r.returncode == 1 and "VIOLATION property=" in r.stdout
                res = "caught" if killed else ("inconclusive(exit %d)" % r.returncode if r.returncode not in (0, 1) else "missed")
                sig = [l for l in r.stdout.splitlines() if l.startswith("C") and ":" in l and not l.startswith("C" + p[1:] + " quick")][:1]
                m["detected_by"][p] = {"result": res, "first_finding": sig[0][:200] if sig else "", "wall_s": round(time.time() - t, 1)}
                if scale: m["detected_by"][p]["scale"] = scale
                print(f"{i:14s} {p}: {res:8s} {time.time()-t:5.1f}s {sig[0][:120] if sig else ''}", flush=True)
            save(i, m)
            sh("git -C /repo checkout -- .")
    finally:
        sh("git -C /repo checkout -- .")
        sh("rm -rf /var/tmp/cbv-seed-out")

if __name__ == "__main__":
    cmd = sys.argv[1]
    if cmd == "import": do_import(sys.argv[2], sys.argv[3], sys.argv[4])
    elif cmd == "verify": do_verify(sys.argv[2:])
    elif cmd == "run":
        args = sys.argv[2:]; props = None
        if "--props" in args:
            k = args.index("--props"); props = args[k + 1].split(","); args = args[:k] + args[k + 2:]
        do_run(args, props)
    elif cmd == "cleanup":
        sh(f"git -C /repo worktree remove --force {SCR}"); sh(f"rm -rf {SCR}")
