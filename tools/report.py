#!/usr/bin/env python3
"""Writes seeded/RESULTS.md (independent seeded changes) and mutants/RESULTS.md (own sensitivity mutants)."""
import json, glob, os
V = os.path.dirname(os.path.dirname(os.path.abspath(__file__)))
rows = []
for d in sorted(glob.glob(f"{V}/seeded/*/meta.json")):
    m = json.load(open(d))
    det = m.get("detected_by", {})
    caught = [k for k, v in det.items() if v["result"] == "caught"]
    missed = [k for k, v in det.items() if v["result"] != "caught"]
    ver = m.get("verified") or {}
    own = det.get(m["breaks_property"], {}).get("result", "not run")
    note = m.get("scope_note", "")
    if m.get("rebased"):
        note = (note + " " if note else "") + m["rebased"]
    rows.append((m["id"], m["breaks_property"], m.get("needs_to_manifest", ""), caught, missed, note, ver.get("ok"), m.get("round", ""), own))
with open(f"{V}/seeded/RESULTS.md", "w") as f:
    f.write("# Seeded changes written by independent sub-agents\n\n"
            "Each sub-agent got only the text of one property and a scratch worktree of /repo. A change is kept here only after\n"
            "it was confirmed in a scratch worktree (`tools/seeded.py verify`): the crate's 61 tests pass with it, its demonstration\n"
            "fails with it and passes without it. `caught by` lists the quick checks that exit 1 with a VIOLATION line when the\n"
            "patch is applied to /repo (`tools/seeded.py run`). The check of the targeted property is run at full quick scale;\n"
            "the other columns come from the cross-property matrix (`tools/matrix.sh`), which runs the world-engine checks at a\n"
            "quarter of the quick budget, so `not caught by` in those columns means `not within 200 000 cases`.\n\n"
            "| id | round | target | what it needs to manifest | confirmed | target check | caught by | not caught by | note |\n|---|---|---|---|---|---|---|---|---|\n")
    for r in rows:
        f.write(f"| {r[0]} | {r[7]} | {r[1]} | {r[2]} | {'yes' if r[6] else 'NO'} | {r[8]} | {', '.join(r[3]) or '-'} | {', '.join(r[4]) or '-'} | {r[5]} |\n")
    n = len(rows); c = sum(1 for r in rows if r[3]); t = sum(1 for r in rows if r[8] == "caught")
    f.write(f"\n{t} of {n} changes are caught by the check of the property they target; {c} of {n} by at least one check.\n")
try:
    res = json.load(open(f"{V}/mutants/last_results.json"))
    specs = {m["id"]: m for m in json.load(open(f"{V}/mutants/mutants.json"))}
    with open(f"{V}/mutants/RESULTS.md", "w") as f:
        f.write("# Own sensitivity mutants (tools/mutants.py, last complete run)\n\n| mutant | file | result per quick check |\n|---|---|---|\n")
        for k, v in res.items():
            f.write(f"| {k} | {specs.get(k, {}).get('file', '')} | {', '.join(f'{p}: {r}' for p, r in v.items())} |\n")
except Exception as e:
    print("no mutant results:", e)
