#!/usr/bin/env python3
"""Writes seeded/RESULTS.md (independent seeded changes) and mutants/RESULTS.md (own sensitivity mutants)."""
import json, glob, os
V = os.path.dirname(os.path.dirname(os.path.abspath(__file__)))
rows = []
for d in sorted(glob.glob(f"{V}/seeded/*/meta.json")):
    m = json.load(open(d))
    det = m.get("detected_by", {})
    caught = [k for k, v in det.items() if v["result"] == "caught"]
    missed = [k for k, v in det.items() if v["result"] != "caught"]
    ver = m.get("verified") or {}
    rows.append((m["id"], m["breaks_property"], m.get("needs_to_manifest", ""), caught, missed, m.get("scope_note", ""), ver.get("ok")))
with open(f"{V}/seeded/RESULTS.md", "w") as f:
    f.write("# Seeded changes written by independent sub-agents\n\n"
            "Each sub-agent got only the text of one property and a scratch worktree of /repo. A change is kept here only after\n"
            "it was confirmed in a scratch worktree (`tools/seeded.py verify`): the crate's 61 tests pass with it, its demonstration\n"
            "fails with it and passes without it. `caught by` lists the quick checks that exit 1 with a VIOLATION line when the\n"
            "patch is applied to /repo (`tools/seeded.py run`).\n\n"
            "| id | target | what it needs to manifest | confirmed | caught by (quick tier) | not caught by | note |\n|---|---|---|---|---|---|---|\n")
    for r in rows:
        f.write(f"| {r[0]} | {r[1]} | {r[2]} | {'yes' if r[6] else 'NO'} | {', '.join(r[3]) or '-'} | {', '.join(r[4]) or '-'} | {r[5]} |\n")
    n = len(rows); c = sum(1 for r in rows if r[3])
    f.write(f"\n{c} of {n} changes are caught by at least one check.\n")
try:
    res = json.load(open(f"{V}/mutants/last_results.json"))
    specs = {m["id"]: m for m in json.load(open(f"{V}/mutants/mutants.json"))}
    with open(f"{V}/mutants/RESULTS.md", "w") as f:
        f.write("# Own sensitivity mutants (tools/mutants.py, last complete run)\n\n| mutant | file | result per quick check |\n|---|---|---|\n")
        for k, v in res.items():
            f.write(f"| {k} | {specs.get(k, {}).get('file', '')} | {', '.join(f'{p}: {r}' for p, r in v.items())} |\n")
except Exception as e:
    print("no mutant results:", e)
