#!/usr/bin/env python3
"""Regenerates /verif/MANIFEST.json from the table below (keeps it schema-valid)."""
import json, os, subprocess
V = os.path.dirname(os.path.dirname(os.path.abspath(__file__)))
props = [json.loads(l) for l in open(f"{V}/properties.jsonl")]
ids = [p["id"] for p in props]

WORLD_NOTE = ("Trusted base: the harness's own peers (puppet sources, probe sinks; conformant by construction, "
              "re-checked by a puppet->probe self-check in every run), the history recorder and the oracle code. "
              "Bounded exploration: arity <= 4 (combine <= 3, plus the arity-12 instance at the root), <= 6 items per "
              "puppet, tree depth <= 3, schedule length <= 24 (quick) / 48 (thorough), one or two subscriptions of the "
              "output. Peers may react from inside any handler (pull, pull twice, pull-then-leave, leave, make an "
              "upstream push re-entrantly). The thorough tier adds a libFuzzer campaign through the same decoder and "
              "oracles. Exploration never proves absence.")

CHECKS = {
 "C01": dict(engine="world", technique="property-based testing (proptest; libFuzzer in the thorough tier): generated scenarios against a protocol monitor (greet-first, greet-once) at every probe sink",
             note=WORLD_NOTE + " One case in eight is a virtual-clock interval scenario. About 4% of the cases use late-greeting upstreams under concat!/flatten/share/unary operators: beyond the stated quantifier (merge! only) but within the statement's premise of conformant upstreams; the unchanged tree is quiet there.",
             text="Random and shrinking search over operator trees, peer behaviours and schedules; the oracle is a pure monitor over the recorded nested history. Right level: the property is a safety property of every history, and generated histories with a monitor reach nestings no scripted test does.", ref="DESIGN.md §4 C01"),
 "C02": dict(engine="world", technique="property-based testing: generated histories against a termination-is-final monitor per probe subscription",
             text="Generated-history search with a monitor: at most one terminal per subscription, nothing after it.", ref="DESIGN.md §4 C02"),
 "C03": dict(engine="world", technique="property-based testing: generated disposal points (top level / inside handlers) against a no-delivery-after-disposal monitor",
             text="Generated-history search; the oracle compares log positions of the sink's disposal and of every later delivery begin.", ref="DESIGN.md §4 C03"),
 "C04": dict(engine="world", technique="property-based testing: generated histories against sink-side protocol monitors and an orphan/double-termination invariant at every puppet source",
             text="Generated-history search; puppets record everything operators send upstream; invariants: one subscription, no message before greeting / after end / after termination, exactly one termination when the output is over, Error kind preserved through pass-through paths.", ref="DESIGN.md §4 C04"),
 "C05": dict(engine="world", technique="property-based testing with fault injection: a generated upstream failure at every position, oracle = exactly one Error with the same Arc at every attached sink and every other live upstream disposed exactly once",
             text="Generated fault positions (inside a greeting, inside a Pull reply, pushed re-entrantly from a sink handler, between data, with siblings active / ended / not yet greeted); identity of the error checked with Arc::ptr_eq at the probe. One listed known finding (D6, combine!).", ref="DESIGN.md §4 C05"),
 "C17": dict(engine="world", technique="property-based testing (proptest; libFuzzer in the thorough tier): catch_unwind around every generated environment step over all scenario profiles, pipelines and virtual-clock scenarios",
             note=WORLD_NOTE + " Late-greeting upstreams are generated under concat!/flatten/unary operators (quiet on the unchanged tree) but not under share, where a sink pulling before the upstream greeted panics: that situation is outside the property's quantifier.",
             text="Every top-level step of every generated scenario runs under catch_unwind with a recording panic hook; any panic with conformant peers is a violation.", ref="DESIGN.md §4 C17"),
 "C07": dict(engine="world", technique="model-based property testing: map/filter/scan/take/skip over one puppet checked after every upstream message against the list-function reference model, with positional (nesting) clauses",
             text="Generated emissions, bursts, sink policies and parameters; after every upstream message the data at the probe must equal F(data sent so far) for the reference F, each output nested inside the input that caused it; completion clauses per operator. Push and pull modes are both generated and checked against the same model.", ref="DESIGN.md §4 C07"),
 "C08": dict(engine="world", technique="model-based property testing: merge! over 1..4 puppets (sync and late greeters) against an arrival-order-union model with Pull fan-out accounting",
             text="Generated interleavings of member greetings, data, completions and sink actions; oracle: greeting inside the first member greeting, probe data == arrival-order union, one Pull per stable live member per sink Pull, completion exactly inside the last member completion.", ref="DESIGN.md §4 C08"),
 "C09": dict(engine="world", technique="model-based property testing: concat! over 1..4 puppets against a strictly-sequential subscription model with demand carry-over",
             text="Oracle: member k+1 subscribed exactly inside member k's completion, data == concatenation, outstanding Pull re-issued in the next greeting, no Pull without demand, completion inside the last member's completion.", ref="DESIGN.md §4 C09"),
 "C10": dict(engine="world", technique="model-based property testing: combine! (arity 1..3, unpacked tuples) against a latest-value model",
             text="Oracle: greeting inside the last member greeting, no tuple before every slot is filled, then exactly one tuple per member datum equal to the model's latest vector and nested in that datum, Pull fan-out, completion inside the last end. The verdict stops at a member Error (that is C05/D6).", ref="DESIGN.md §4 C10"),
 "C11": dict(engine="world", technique="model-based property testing: flatten over an outer puppet emitting inner puppets against a switch-state model {outer_alive, current}",
             text="Oracle: inner subscribed inside the outer datum, exactly one greeting Pull, previous inner disposed exactly once on a switch, probe data == data of the current inner, completion only in the two sanctioned places, Pull routing inner-else-outer with causes attributed by nesting.", ref="DESIGN.md §4 C11"),
 "C12": dict(engine="world", technique="model-based property testing: share over one puppet with 1..3 probes against a reference-count model",
             text="Generated attach/detach/pull orders interleaved with source data/end/error; oracle: a fresh upstream exactly when a sink attaches while none is attached, never two live upstreams, fan-out equals what was emitted while attached, one upstream Pull per sink Pull, upstream disposed exactly in the detach that empties the list.", ref="DESIGN.md §4 C12",
             note=WORLD_NOTE + " With 2+ probes the puppet never answers a Pull synchronously (the property's quantifier excludes nested fan-out; that case is generated for C02/C03 instead). Probes also act on each other from inside handlers (one leaves, a free one joins) and subscribe again from inside their own end handler; the latter exposes the listed known finding D9 (share gives such a subscriber no fresh upstream), after which the verdict of that scenario stops."),
 "C13": dict(engine="world", technique="metamorphic property testing: a two-subscription interleaved run projected onto each subscription (by actor identity) must equal that subscription's solo run",
             text="Generated operator (any but share, also nested one level, and from_iter), two probes with independent scripts, a generated interleaving and cross-subscription pulls issued from inside the other subscription's handlers; the oracle re-runs each subscription alone (cross-issued pulls become top-level pulls) and compares the order of all deliveries, closure calls and Iterator::next/clone calls. interval is judged by the per-subscription tick model on the virtual clock.", ref="DESIGN.md §4 C13, §12.6"),
 "C14": dict(engine="world", technique="property-based testing with a counting invariant over every prefix: Data <= Pulls at the sink, and outstanding demand is always in flight at some upstream",
             text="Pullable puppets (one answer per Pull, inside the call or deferred) and credit-respecting sinks over from_iter/map/filter/scan/take/skip/concat!/flatten and two-level compositions; invariants evaluated at every delivery and after every top-level step.", ref="DESIGN.md §4 C14",
             note=WORLD_NOTE + " take is not placed under concat!/flatten here: it ends unasked after its nth item, so its output does not satisfy the premise the property puts on upstreams."),
 "C15": dict(engine="world", technique="property-based testing: from_iter over a call-counting iterator (empty, finite up to 64, unbounded) under generated pull/dispose patterns, with nesting-depth and next()-count invariants",
             text="Oracle: items in iterator order, no Data/Terminate delivery begins inside a Data delivery, next() never ahead of Pulls, next() calls == items + completion, every idle Pull answered before it returns, exactly one completion, silence and no next() after disposal.", ref="DESIGN.md §4 C15"),
 "C06": dict(engine="pipeline", technique="differential property testing: generated pull pipelines (from_iter, map, filter, scan, take, skip, concat!, map-then-flatten, for_each, pipe!) against the same program written with std::iter adaptors, plus next()-call accounting per iterator",
             text="Programs are generated from a grammar (nesting depth <= 3, finite and unbounded inputs); oracle: arguments of f == reference Vec, Terminate reaches for_each before the subscribing call returns, every from_iter leaf advanced exactly items+exhaustion times and never ahead of Pulls, per-subscription consumption equals the lazy reference's, and pipe!(a, f1..fk) gives the same history as fk(..f1(a)).", ref="DESIGN.md §4 C06",
             note="Trusted base: std::iter adaptors as the reference, the harness taps and counting iterators, the oracle code. Closures come from small tables of pure functions; unbounded inputs are cut off after 5000 items so a pipeline that fails to stop shows up as a wrong result, not a hang. Bounded exploration, never a proof."),
 "C16": dict(engine="clock", technique="model-based property testing on a virtual clock: interval driven by a harness-owned mock Nurse+Timer (injected spawn failures, generated expiry/disposal orders) against a per-subscription tick model",
             text="The executor is supplied through interval's public generic parameter; the harness owns time and polling. Oracle: back-to-back sleep(period) requests, exactly one Data(k) per completed sleep counting from 0 per subscription, nothing from the first tick at which the disposal is visible, the task finishes at that wake-up without another sleep (no leaked timer), and a failed spawn yields exactly one Error carrying the injected NurseErr.", ref="DESIGN.md §4 C16",
             note="Trusted base: the mock executor (tasks polled only by the harness, sleep pending until fired, no time passes during a poll), probes, oracle code. Real-timer drift and a tick overtaking the greeting on a preemptive executor are not explored."),
 "C18": dict(engine="sched", technique="schedule enumeration and random schedule generation under an owned lock-step thread scheduler (hooked shared-state accesses), with exactly-once counting oracles",
             text="merge!/combine! with 2-3 member threads on real OS threads; exactly one thread runs between yield points (every hooked AtomicBool/AtomicUsize/ArcSwap access of merge.rs/combine.rs plus harness points). Depth-first enumeration is complete for the 2-thread x 1-datum shapes and preemption-bounded for larger ones (per_shape in the evidence says which), followed by proptest-generated random schedules that shrink towards fewer preemptions. Oracle: one greeting, every datum once and in per-member order (merge), complete tuples of values actually sent with the own slot current (combine), no panic, one terminal, completion after every data delivery has returned.", ref="DESIGN.md §4 C18",
             note="Trusted base: the cfg-guarded hook stand-ins (feature `verif`), the lock-step scheduler, the member/probe actors and the oracle. Interleavings are sequentially consistent at the granularity of hooked accesses; weak-memory reorderings are out of reach. A stuck session is reported as inconclusive (exit 2)."),
 "C19": dict(engine="sched", technique="schedule enumeration and random schedule generation under an owned lock-step thread scheduler, with counting oracles at the sink and at a transparent tap above take",
             text="take(n), n in 1..3, fed by merge! of 2-3 member threads or directly by one source delivering from 2-3 threads; same scheduler and generators as C18 with take.rs hooked. Oracle: at most n data at the sink, exactly one Terminate to the sink and exactly one termination on take's upstream edge once n were delivered, no member terminated twice.", ref="DESIGN.md §4 C19",
             note="Trusted base as for C18."),
 "C20": dict(engine="trace-diff", technique="differential property testing across build configurations: identical generated cases (including cases with non-conformant peers) run with the crate's `tracing` feature off, on without a subscriber, and on with a field-formatting subscriber; per-case history digests compared",
             text="Two harness builds (target/ and target-tracing/) generate the same case sequence from the seed; the digest covers every message and value at every harness actor and every closure / Iterator::next call, so a dropped, duplicated or twice-evaluated message expression under the feature changes it. A differing case is shrunk under the predicate `digests differ` and saved as a replay that re-runs in both builds.", ref="DESIGN.md §4 C20",
             note="Trusted base: determinism of case generation and of the interpreters across the two builds, the digest (FNV-1a over the normalised log), the minimal subscriber. Clone counts of values are deliberately not part of the digest."),
}

def main():
    repo_commits = subprocess.run(["git", "-C", "/repo", "log", "--format=%h %s"], capture_output=True, text=True).stdout.splitlines()
    hook_commits = [l.split()[0] for l in repo_commits if l.split(" ", 1)[1].startswith("verif:")]
    checks = []
    for pid in ids:
        if pid not in CHECKS:
            continue
        c = CHECKS[pid]
        checks.append({
            "property_id": pid,
            "quick_cmd": f"./check {pid} quick",
            "thorough_cmd": f"./check {pid} thorough",
            "evidence_file": f"evidence/{pid}.json",
            "replay_cmd_template": "./check replay {path}",
            "engine": c["engine"],
            "level_claimed": {"category": "exploration", "text": c["text"], "design_ref": c["ref"]},
            "level_note": c.get("note", WORLD_NOTE),
            "technique": c["technique"],
        })
    na = [{"property_id": p, "reason": "check not built yet (work in progress, see DESIGN.md §11)"} for p in ids if p not in CHECKS]
    m = {
        "version": 1,
        "setup_cmd": "./setup.sh",
        "hooks": {
            "guard": "cargo feature `verif` of the callbag crate (off by default)",
            "enable": "the harness crate /verif/harness depends on callbag (path=/repo) with feature `verif` through its default feature `hooks`; ./check always builds that way",
            "baseline_off_cmd": "cd /repo && cargo test --workspace --no-fail-fast --offline",
            "source_commits": hook_commits,
            "add_only": True,
        },
        "engines": [
            {"name": "world", "path": "harness/src/world.rs", "serves_properties": [p for p in ids if CHECKS.get(p, {}).get("engine") == "world"],
             "kind_free_text": "scenario interpreter: real crate operators between harness-owned puppet sources and probe sinks; proptest-generated byte strings decoded into scenarios; pure oracles over the recorded history"},
            {"name": "clock", "path": "harness/src/clock.rs", "serves_properties": ["C16", "C01", "C02", "C03", "C13", "C17"],
             "kind_free_text": "virtual-time executor (mock Nurse + Timer) driving the crate's interval; also feeds one case in eight of C01/C02/C03/C13/C17"},
            {"name": "sched", "path": "harness/src/sched.rs", "serves_properties": ["C18", "C19"],
             "kind_free_text": "lock-step scheduler over real OS threads driven through the crate's cfg-guarded hook; depth-first schedule enumeration plus proptest-generated random schedules"},
            {"name": "trace-diff", "path": "harness/src/c20.rs", "serves_properties": ["C20"],
             "kind_free_text": "cross-build digest differential over world, pipeline and clock cases (feature `tracing` off / on / on with subscriber)"},
            {"name": "pipeline", "path": "harness/src/pipeline.rs", "serves_properties": [p for p in ids if CHECKS.get(p, {}).get("engine") == "pipeline"],
             "kind_free_text": "grammar-generated iterable programs run through the real crate (built with pipe!) and through std::iter as the reference"},
        ],
        "checks": checks,
        "notes": "All checks: exit 0 = held on everything explored, exit 1 + VIOLATION line = unlisted violation (replay file written under replays/), exit 2 = harness error / inconclusive. Known findings: known_findings.json.",
        "not_applicable": na,
    }
    json.dump(m, open(f"{V}/MANIFEST.json", "w"), indent=1)

main()
