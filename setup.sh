#!/bin/sh
# builds the harness from files on disk only (offline)
set -e
cd "$(dirname "$0")"
exec ./check build
