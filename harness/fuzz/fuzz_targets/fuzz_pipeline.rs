#![no_main]
use libfuzzer_sys::fuzz_target;

fuzz_target!(|data: &[u8]| {
    cbv::fuzzglue::fuzz_pipeline(data);
});
