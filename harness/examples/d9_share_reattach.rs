//! Known finding D9 in plain user code: a consumer that subscribes to a shared source again from
//! inside the delivery of that source's end (here: concat! of the same shared source twice) gets no
//! fresh upstream subscription and stalls. Expected [1, 2, 1, 2] and completion; observed [1, 2].
use callbag::{for_each, from_iter, share, Message, Source};
use std::sync::{Arc, Mutex};

fn main() {
    let seen = Arc::new(Mutex::new(vec![]));
    let s: Arc<Source<i32>> = Arc::new(share(from_iter([1, 2])));
    let both: Source<i32> = callbag::concat!(Arc::clone(&s), s);
    // a tap that notes whether Terminate ever reaches the consumer
    let done = Arc::new(Mutex::new(false));
    let done2 = Arc::clone(&done);
    let tapped: Source<i32> = (move |m: Message<never::Never, i32>| {
        if let Message::Handshake(sink) = m {
            let done2 = Arc::clone(&done2);
            both(Message::Handshake(Arc::new(
                (move |m: Message<i32, never::Never>| {
                    if let Message::Terminate = m {
                        *done2.lock().unwrap() = true;
                    }
                    sink(m)
                })
                .into(),
            )));
        }
    })
    .into();
    let seen2 = Arc::clone(&seen);
    for_each(move |x: i32| seen2.lock().unwrap().push(x))(tapped);
    println!("items: {:?}, completed: {}", seen.lock().unwrap(), done.lock().unwrap());
}
