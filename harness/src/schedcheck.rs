//! Check driver for C18 / C19: replay tier, bounded-exhaustive enumeration of thread schedules per
//! shape (partitioned over worker threads), then a proptest campaign of random schedules.

use crate::run::*;
use crate::sched::*;
use std::collections::{BTreeMap, HashSet};
use std::sync::Mutex;

pub struct Plan {
    pub shape: Shape,
    pub bound: Option<u32>,
    pub max_runs: u64,
}

pub fn plans(prop: &str, thorough: bool) -> Vec<Plan> {
    shapes_for(prop)
        .into_iter()
        .map(|shape| {
            let data: u32 = shape.members.iter().map(|m| m.0 as u32).sum();
            let threads = shape.members.len();
            let small = threads == 2 && data <= 2;
            let bound = if thorough {
                if small || (threads == 2 && data <= 4 && matches!(shape.op, SOp::Merge)) {
                    None
                } else {
                    Some(4)
                }
            } else if small {
                None
            } else {
                Some(2)
            };
            Plan { shape, bound, max_runs: if thorough { 3_000_000 } else { 150_000 } }
        })
        .collect()
}

pub struct SchedReport {
    pub stats: Stats,
    pub per_shape: BTreeMap<String, serde_json::Value>,
    pub violation: Option<(SchedCase, crate::oracle::Finding)>,
    pub stuck: bool,
}

pub fn enumerate_all(prop: &'static str, thorough: bool, known: &KnownFile) -> SchedReport {
    let plans = plans(prop, thorough);
    // work items: (plan index, prefix)
    let mut items: Vec<(usize, Vec<u16>)> = vec![];
    for (i, p) in plans.iter().enumerate() {
        for pre in partition(&p.shape, p.bound, 24) {
            items.push((i, pre));
        }
    }
    let queue = Mutex::new(items);
    struct Acc {
        runs: u64,
        complete: bool,
        nontrivial: u64,
        digests: HashSet<u64>,
        sample: Option<String>,
    }
    let accs: Vec<Mutex<Acc>> = plans
        .iter()
        .map(|_| Mutex::new(Acc { runs: 0, complete: true, nontrivial: 0, digests: HashSet::new(), sample: None }))
        .collect();
    let violation: Mutex<Option<(SchedCase, crate::oracle::Finding)>> = Mutex::new(None);
    let stuck = Mutex::new(false);
    let known_hits: Mutex<BTreeMap<String, u64>> = Mutex::new(BTreeMap::new());
    std::thread::scope(|sc| {
        for _ in 0..16 {
            sc.spawn(|| loop {
                if violation.lock().unwrap().is_some() {
                    return;
                }
                let item = queue.lock().unwrap().pop();
                let Some((pi, prefix)) = item else { return };
                let plan = &plans[pi];
                let accept = |f: &crate::oracle::Finding| {
                    if f.prop != prop {
                        return false;
                    }
                    match known.matches(f) {
                        Some(k) => {
                            *known_hits.lock().unwrap().entry(k.id.clone()).or_default() += 1;
                            false
                        }
                        None => true,
                    }
                };
                let per_item = (plan.max_runs / 24).max(1000);
                let st = enumerate(&plan.shape, plan.bound, &prefix, per_item, &accept);
                let mut a = accs[pi].lock().unwrap();
                a.runs += st.runs;
                a.complete &= st.complete;
                a.nontrivial += st.nontrivial;
                a.digests.extend(st.digests);
                if a.sample.is_none() {
                    a.sample = st.sample;
                }
                if st.stuck {
                    *stuck.lock().unwrap() = true;
                }
                if let Some((choices, f)) = st.violation {
                    // express the violating schedule as scaled bytes so that it is a SchedCase:
                    // re-run with exact indices to learn the arities, then scale
                    let r = run_schedule(&plan.shape, Choices::Index(choices.clone()), plan.bound);
                    let bytes: Vec<u8> = r
                        .taken
                        .iter()
                        .map(|(c, a)| (((*c as u32) * 256 + (*a as u32) - 1) / (*a as u32)).min(255) as u8)
                        .collect();
                    let mut v = violation.lock().unwrap();
                    if v.is_none() {
                        *v = Some((SchedCase { shape: plan.shape.clone(), schedule: bytes }, f));
                    }
                }
            });
        }
    });
    let mut stats = Stats::default();
    let mut per_shape = BTreeMap::new();
    for (p, a) in plans.iter().zip(accs.iter()) {
        let a = a.lock().unwrap();
        stats.evaluations += a.runs;
        stats.nontrivial += a.nontrivial;
        stats.digests.extend(a.digests.iter().copied());
        *stats.classes.entry(format!("shape:{}", p.shape.name())).or_default() += a.runs;
        if let Some(s) = &a.sample {
            if stats.samples.len() < 4 {
                stats.samples.push(serde_json::json!({"shape": p.shape.name(), "schedule_trace": s.chars().take(900).collect::<String>()}));
            }
        }
        per_shape.insert(
            p.shape.name(),
            serde_json::json!({
                "schedules": a.runs,
                "preemption_bound": p.bound,
                "exhaustive": a.complete && p.bound.is_none(),
                "complete_within_bound": a.complete,
            }),
        );
    }
    stats.known_hits = known_hits.into_inner().unwrap();
    let stuck = stuck.into_inner().unwrap();
    SchedReport { stats, per_shape, violation: violation.into_inner().unwrap(), stuck }
}
