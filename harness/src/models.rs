//! Reference models for the single-operator properties C07-C12, evaluated over the recorded
//! history of a scenario whose root operator sits directly on puppets.

use crate::hist::*;
use crate::oracle::{finding, Ctx, Dir, EdgeEv, Finding, InstInfo, SubInfo};
use crate::scn::*;
use crate::world::{map_fn, pred_fn, red_fn};

fn ival(m: &M) -> Option<i64> {
    match m {
        M::Data(Val::I(v)) => Some(*v),
        _ => None,
    }
}

fn within(cx: &Ctx, pos: usize, span: usize) -> bool {
    let s = &cx.ix.spans[span];
    s.start < pos && pos < s.end
}

fn span_at(cx: &Ctx, enter_pos: usize) -> usize {
    cx.ix.span_of_enter[enter_pos].unwrap()
}

/// the probe subscription under judgement (the models are evaluated once per subscription of the output)
fn the_sub<'a>(cx: &'a Ctx, si: usize) -> Option<&'a SubInfo> {
    cx.subs.get(si)
}

/// runs a per-subscription model over every subscription of the scenario
fn per_sub(cx: &Ctx, f: impl Fn(&Ctx, usize) -> Vec<Finding>) -> Vec<Finding> {
    let mut out = vec![];
    for si in 0..cx.subs.len() {
        out.extend(f(cx, si));
        if !out.is_empty() {
            break;
        }
    }
    out
}

fn down_events<'a>(cx: &'a Ctx, s: &SubInfo) -> Vec<&'a EdgeEv> {
    cx.probe_edge(s).iter().filter(|e| e.dir == Dir::Down).collect()
}

/// "completes exactly once": more than one terminating message at the sink is a finding of the operator model too
fn completed_once(cx: &Ctx, prop: &'static str, sub: &SubInfo, out: &mut Vec<Finding>) {
    let terms: Vec<&EdgeEv> =
        down_events(cx, sub).into_iter().filter(|e| matches!(e.msg, M::Terminate | M::Error(_))).collect();
    if terms.len() > 1 {
        out.push(finding(
            prop,
            format!("{prop}:ended-more-than-once"),
            format!("the sink received {} terminating messages: {:?}", terms.len(), terms.iter().map(|e| e.msg.short()).collect::<Vec<_>>()),
            terms[1].start,
        ));
    }
}

/// a panic anywhere in the scenario defeats the operator's contract (the models otherwise judge only the prefix)
fn no_panic(cx: &Ctx, prop: &'static str, out: &mut Vec<Finding>) {
    if let Some((at, msg)) = cx.h.log.iter().enumerate().find_map(|(i, e)| match e {
        Ev::Panic { message, .. } if message.starts_with("harness:") => None,
        Ev::Panic { message, location } => Some((i, format!("{message} at {location}"))),
        _ => None,
    }) {
        out.push(finding(prop, format!("{prop}:panicked"), format!("the scenario panicked: {msg}"), at));
    }
}

fn only_inst<'a>(cx: &'a Ctx, pup: u8, si: usize) -> Option<&'a InstInfo> {
    cx.insts.iter().find(|i| i.pup == pup && i.sub == Some(si))
}

/// Pull spans received by puppets, each charged to the innermost enclosing span accepted by `cause`.
fn pulls_by_cause(cx: &Ctx, cause: impl Fn(&Span) -> bool) -> Vec<(usize, Option<usize>)> {
    cx.ix
        .spans
        .iter()
        .enumerate()
        .filter(|(_, s)| matches!(s.site, Site::PupRecv { msg: M::Pull, .. }))
        .map(|(i, _)| (i, cx.ix.enclosing(i, &cause)))
        .collect()
}

fn is_sink_pull(s: &Span) -> bool {
    matches!(s.site, Site::SinkSend { msg: M::Pull, .. })
}

// =================================================================== C07

pub fn unary_model(t: &Topo, u: &[i64]) -> Vec<(usize, i64)> {
    // (index of the input that caused it, output value)
    match t {
        Topo::Map(f, _) => u.iter().enumerate().map(|(i, x)| (i, map_fn(*f, *x))).collect(),
        Topo::Filter(p, _) => u.iter().enumerate().filter(|(_, x)| pred_fn(*p, **x)).map(|(i, x)| (i, *x)).collect(),
        Topo::Scan(r, seed, _) => {
            let mut acc = *seed;
            u.iter()
                .enumerate()
                .map(|(i, x)| {
                    acc = red_fn(*r, acc, *x);
                    (i, acc)
                })
                .collect()
        }
        Topo::Take(n, _) => u.iter().enumerate().take(count_param(*n)).map(|(i, x)| (i, *x)).collect(),
        Topo::Skip(n, _) => u.iter().enumerate().skip(count_param(*n)).map(|(i, x)| (i, *x)).collect(),
        _ => vec![],
    }
}

pub fn c07(cx: &Ctx) -> Vec<Finding> {
    per_sub(cx, c07_for)
}

fn c07_for(cx: &Ctx, si: usize) -> Vec<Finding> {
    let mut out = vec![];
    let t = &cx.sc.topo;
    let child_pup = match t {
        Topo::Map(_, c) | Topo::Filter(_, c) | Topo::Scan(_, _, c) | Topo::Take(_, c) | Topo::Skip(_, c) => match **c {
            Topo::Puppet(p) => p,
            _ => return out,
        },
        _ => return out,
    };
    let op = t.op_name();
    if matches!(t, Topo::Take(0, _)) {
        return out; // the statement is about take(n >= 1)
    }
    let Some(sub) = the_sub(cx, si) else { return out };
    let Some(inst) = only_inst(cx, child_pup, si) else { return out };
    // walk the history in order, maintaining U and the data the probe has received
    let mut u: Vec<i64> = vec![];
    let mut u_span: Vec<usize> = vec![];
    let mut got: Vec<(i64, usize)> = vec![]; // value, span
    // events sorted by log position: enters and exits of the relevant spans
    #[derive(Clone, Copy)]
    enum E {
        PupSendEnter(usize),
        PupSendExit(usize),
        SinkData(usize),
    }
    let mut evs: Vec<(usize, E)> = vec![];
    for (i, sp) in cx.ix.spans.iter().enumerate() {
        match &sp.site {
            Site::PupSend { pup, inst: k, .. } if *pup == inst.pup && *k == inst.inst => {
                evs.push((sp.start, E::PupSendEnter(i)));
                evs.push((sp.end, E::PupSendExit(i)));
            }
            Site::SinkRecv { sink, sub: k, msg: M::Data(_) } if *sink == sub.sink && *k == sub.sub => {
                evs.push((sp.start, E::SinkData(i)));
            }
            _ => {}
        }
    }
    evs.sort_by_key(|e| e.0);
    let truncated = !cx.h.panics().is_empty();
    for (pos, e) in evs {
        match e {
            E::PupSendEnter(i) => {
                if let Some(v) = ival(cx.ix.spans[i].site.msg()) {
                    if sub.live_at(pos) {
                        u.push(v);
                        u_span.push(i);
                    }
                }
            }
            E::SinkData(i) => {
                if let Some(v) = ival(cx.ix.spans[i].site.msg()) {
                    got.push((v, i));
                }
            }
            E::PupSendExit(i) => {
                if truncated && cx.ix.spans[i].end >= cx.h.log.len() {
                    continue;
                }
                let want = unary_model(t, &u);
                let got_vals: Vec<i64> = got.iter().map(|g| g.0).collect();
                let want_vals: Vec<i64> = want.iter().map(|w| w.1).collect();
                if got_vals != want_vals {
                    out.push(finding(
                        "C07",
                        format!("C07:data-mismatch({op})"),
                        format!(
                            "after upstream message {} the sink has received {:?} but {}({:?}) = {:?}",
                            cx.ix.spans[i].site.short(),
                            got_vals,
                            op,
                            u,
                            want_vals
                        ),
                        pos,
                    ));
                    return out;
                }
                // each output delivered during the delivery of the input that caused it
                for ((_, gs), (ui, _)) in got.iter().zip(want.iter()) {
                    let cause = cx.ix.enclosing(*gs, |s| matches!(s.site, Site::PupSend { msg: M::Data(_), .. }));
                    if cause != Some(u_span[*ui]) {
                        out.push(finding(
                            "C07",
                            format!("C07:output-outside-its-input({op})"),
                            format!(
                                "output {} was not delivered during the delivery of input #{ui}",
                                cx.ix.spans[*gs].site.short()
                            ),
                            cx.ix.spans[*gs].start,
                        ));
                        return out;
                    }
                }
            }
        }
    }
    // greeting is forwarded inside the upstream greeting
    if let Some(g) = inst.greeted_at {
        let gs = span_at(cx, g);
        match sub.greeted_at {
            Some(x) if within(cx, x, gs) => {}
            _ => out.push(finding(
                "C07",
                format!("C07:greeting-not-forwarded({op})"),
                "the upstream greeted but the sink was not greeted during that greeting".to_string(),
                g,
            )),
        }
    }
    // completion
    let disposed = sub.disposed_at.as_ref().map(|d| d.0);
    let n_take = if let Topo::Take(n, _) = t { Some(count_param(*n)) } else { None };
    let took_all = n_take.map_or(false, |n| u.len() >= n);
    // upstream ended by itself from inside the nth item's delivery (pushed re-entrantly while the sink was
    // handling that item), before take's own completion point: then that end is simply relayed
    let ended_inside_nth = match (n_take, took_all, &inst.ended_at) {
        (Some(n), true, Some((e, _))) => within(cx, *e, u_span[n - 1]),
        _ => false,
    };
    if let (Some(n), true, false) = (n_take, took_all, ended_inside_nth) {
        let nth = u_span[n - 1];
        let nth_sink = got.get(n - 1).map(|g| cx.ix.spans[g.1].start);
        let disposed_first = disposed.map_or(false, |d| d < cx.ix.spans[nth].end);
        if disposed_first && !truncated {
            // the sink left before take's own completion: take must neither complete it nor dispose
            // upstream a second time (the relayed disposal is the only termination upstream sees)
            if sub.terminal_at.is_some() || inst.terms.len() > 1 {
                out.push(finding(
                    "C07",
                    "C07:take-completion-after-disposal",
                    format!("take({n}): the sink disposed before the {n}th delivery returned, yet the sink saw {:?} and upstream received {:?}", sub.terminal_at, inst.terms),
                    cx.ix.spans[nth].end,
                ));
            }
        }
        if !disposed_first && !(truncated && cx.ix.spans[nth].end >= cx.h.log.len()) {
            match (&sub.terminal_at, nth_sink) {
                (Some((tpos, M::Terminate)), Some(ns)) if within(cx, *tpos, nth) && *tpos > ns => {}
                (other, _) => out.push(finding(
                    "C07",
                    "C07:take-completion-sink",
                    format!("take({n}): after the {n}th item the sink must be completed during that item's delivery; saw {other:?}"),
                    cx.ix.spans[nth].end,
                )),
            }
            let ok = inst.terms.len() == 1
                && inst.terms[0].1 == M::Terminate
                && within(cx, inst.terms[0].0, nth)
                && nth_sink.map_or(false, |ns| inst.terms[0].0 > ns);
            if !ok {
                out.push(finding(
                    "C07",
                    "C07:take-completion-upstream",
                    format!("take({n}): upstream must be disposed exactly once during the {n}th item's delivery; saw {:?}", inst.terms),
                    cx.ix.spans[nth].end,
                ));
            }
        }
    } else if let Some((epos, em)) = &inst.ended_at {
        // the operator completes exactly when upstream does
        if sub.live_at(*epos) {
            let es = span_at(cx, *epos);
            if !(truncated && cx.ix.spans[es].end >= cx.h.log.len()) {
                match &sub.terminal_at {
                    Some((tpos, tm)) if tm == em && within(cx, *tpos, es) => {}
                    other => out.push(finding(
                        "C07",
                        format!("C07:completion-not-relayed({op})"),
                        format!("upstream ended with {} while the output was live; sink saw {other:?}", em.short()),
                        *epos,
                    )),
                }
            }
        }
    } else if let Some((tpos, tm)) = &sub.terminal_at {
        out.push(finding(
            "C07",
            format!("C07:spurious-completion({op})"),
            format!("the sink received {} although upstream had not ended and take had not completed", tm.short()),
            *tpos,
        ));
    }
    // "completes the sink" / "complete exactly when upstream does": once
    completed_once(cx, "C07", sub, &mut out);
    no_panic(cx, "C07", &mut out);
    out
}

pub fn nt_c07(cx: &Ctx) -> bool {
    let t = &cx.sc.topo;
    let Some(sub) = the_sub(cx, 0) else { return false };
    let vals: Vec<i64> = cx
        .insts
        .iter()
        .flat_map(|i| cx.pup_edge(i).iter())
        .filter(|e| e.dir == Dir::Down && sub.live_at(e.start))
        .filter_map(|e| ival(&e.msg))
        .collect();
    if vals.len() < 2 {
        return false;
    }
    match t {
        Topo::Take(n, _) => count_param(*n) <= vals.len(),
        Topo::Skip(n, _) => (count_param(*n) < vals.len() && *n > 0) || *n >= 254,
        Topo::Filter(p, _) => vals.iter().any(|v| pred_fn(*p, *v)) && vals.iter().any(|v| !pred_fn(*p, *v)),
        _ => true,
    }
}

// =================================================================== shared fan-in helpers

struct Members<'a> {
    insts: Vec<Option<&'a InstInfo>>,
    pups: Vec<u8>,
}

fn members<'a>(cx: &'a Ctx, ts: &[Topo], si: usize) -> Option<Members<'a>> {
    let mut pups = vec![];
    for t in ts {
        match t {
            Topo::Puppet(p) => pups.push(*p),
            _ => return None,
        }
    }
    let insts = pups.iter().map(|p| only_inst(cx, *p, si)).collect();
    Some(Members { insts, pups })
}

/// every member that is greeted and live both at the start and at the end of a sink Pull receives
/// exactly one Pull charged to that extent; no member receives more than one; no Pull is spontaneous
fn pull_broadcast(cx: &Ctx, prop: &'static str, op: &str, ms: &Members, sub: &SubInfo, out: &mut Vec<Finding>) {
    let charged = pulls_by_cause(cx, is_sink_pull);
    let mine = |span: usize| {
        matches!(&cx.ix.spans[span].site, Site::PupRecv { pup, inst, .. } if ms.insts.iter().flatten().any(|i| i.pup == *pup && i.inst == *inst))
    };
    for (p, c) in &charged {
        if c.is_none() && mine(*p) {
            out.push(finding(
                prop,
                format!("{prop}:spontaneous-pull({op})"),
                format!("{} was not caused by any Pull of the sink", cx.ix.spans[*p].site.short()),
                cx.ix.spans[*p].start,
            ));
        }
    }
    // a Pull is never forwarded to a member that has already completed or been terminated
    for (p, _) in &charged {
        let Site::PupRecv { pup, inst, .. } = &cx.ix.spans[*p].site else { continue };
        let Some(i) = ms.insts.iter().flatten().find(|i| i.pup == *pup && i.inst == *inst) else { continue };
        let at = cx.ix.spans[*p].start;
        let dead = i.ended_at.as_ref().map_or(false, |e| e.0 < at) || i.terms.first().map_or(false, |t| t.0 < at);
        if dead {
            out.push(finding(
                prop,
                format!("{prop}:pull-to-finished-member({op})"),
                format!("member p{pup}.{inst} received a Pull at #{at} after it had completed or been terminated"),
                at,
            ));
        }
    }
    for (xi, x) in cx.ix.spans.iter().enumerate() {
        if !matches!(&x.site, Site::SinkSend { msg: M::Pull, sink, sub: k } if *sink == sub.sink && *k == sub.sub) {
            continue;
        }
        if x.end >= cx.h.log.len() {
            continue; // unwound by a panic
        }
        for inst in ms.insts.iter().flatten() {
            let n = charged
                .iter()
                .filter(|(p, c)| {
                    *c == Some(xi)
                        && matches!(&cx.ix.spans[*p].site, Site::PupRecv { pup, inst: k, .. } if *pup == inst.pup && *k == inst.inst)
                })
                .count();
            let stable = inst.live_at(x.start) && inst.live_at(x.end);
            // a member that had completed (or been terminated) before the Pull began must not get it
            let gone_before = inst.greeted_at.map_or(false, |g| g < x.start) && !inst.live_at(x.start);
            if n > 1 || (stable && n != 1) || (gone_before && n != 0) {
                out.push(finding(
                    prop,
                    format!("{prop}:pull-fanout({op})"),
                    format!(
                        "sink Pull at #{}: member p{}.{} received {n} Pulls (live throughout: {stable}, gone before: {gone_before})",
                        x.start, inst.pup, inst.inst
                    ),
                    x.start,
                ));
            }
        }
    }
}

// =================================================================== C08 merge

pub fn c08(cx: &Ctx) -> Vec<Finding> {
    per_sub(cx, c08_for)
}

fn c08_for(cx: &Ctx, si: usize) -> Vec<Finding> {
    let mut out = vec![];
    let Topo::Merge(ts) = &cx.sc.topo else { return out };
    let Some(ms) = members(cx, ts, si) else { return out };
    let Some(sub) = the_sub(cx, si) else { return out };
    let truncated = !cx.h.panics().is_empty();
    // greeting: inside the first member greeting
    let first_greet = ms.insts.iter().flatten().filter_map(|i| i.greeted_at).min();
    match (first_greet, sub.greeted_at) {
        (Some(g), Some(x)) => {
            if !within(cx, x, span_at(cx, g)) {
                out.push(finding("C08", "C08:greeted-elsewhere", "the sink was not greeted during the first member greeting".to_string(), x));
            }
        }
        (Some(g), None) => {
            if !truncated {
                out.push(finding("C08", "C08:not-greeted", "a member greeted but the sink was never greeted".to_string(), g))
            }
        }
        (None, Some(x)) => out.push(finding("C08", "C08:greeted-early", "the sink was greeted before any member greeted".to_string(), x)),
        (None, None) => {}
    }
    let n_greetings = down_events(cx, sub).into_iter().filter(|e| e.msg == M::Handshake).count();
    if n_greetings > 1 {
        out.push(finding("C08", "C08:greeted-more-than-once", format!("the sink was greeted {n_greetings} times"), 0));
    }
    // data: arrival-order union
    let mut sent: Vec<(usize, i64, usize)> = vec![]; // (start, value, span)
    for inst in ms.insts.iter().flatten() {
        for e in cx.pup_edge(inst) {
            if e.dir == Dir::Down && sub.live_at(e.start) {
                if let Some(v) = ival(&e.msg) {
                    sent.push((e.start, v, e.span));
                }
            }
        }
    }
    sent.sort();
    let got: Vec<(usize, i64, usize)> = down_events(cx, sub)
        .into_iter()
        .filter_map(|e| ival(&e.msg).map(|v| (e.start, v, e.span)))
        .collect();
    let sv: Vec<i64> = sent.iter().map(|s| s.1).collect();
    let gv: Vec<i64> = got.iter().map(|s| s.1).collect();
    let complete = !truncated;
    if (complete && sv != gv) || (!complete && !sv.starts_with(&gv)) {
        out.push(finding(
            "C08",
            "C08:data-mismatch",
            format!("members sent {sv:?} (arrival order, while the output was live) but the sink received {gv:?}"),
            0,
        ));
        return out;
    }
    for (g, s) in got.iter().zip(sent.iter()) {
        if cx.ix.enclosing(g.2, |sp| matches!(sp.site, Site::PupSend { msg: M::Data(_), .. })) != Some(s.2) {
            out.push(finding("C08", "C08:datum-not-relayed-synchronously", format!("datum {} was not delivered during its member's send", g.1), g.0));
        }
    }
    pull_broadcast(cx, "C08", "merge", &ms, sub, &mut out);
    completed_once(cx, "C08", sub, &mut out);
    // completion: exactly once, inside the completion of the last of all n members
    let all_done = ms.insts.iter().all(|i| {
        i.map_or(false, |i| matches!(&i.ended_at, Some((e, M::Terminate)) if sub.live_at(*e)))
    });
    if all_done {
        let last = ms.insts.iter().flatten().filter_map(|i| i.ended_at.as_ref().map(|e| e.0)).max().unwrap();
        let ls = span_at(cx, last);
        if !(truncated && cx.ix.spans[ls].end >= cx.h.log.len()) {
            match &sub.terminal_at {
                Some((t, M::Terminate)) if within(cx, *t, ls) => {}
                other => out.push(finding(
                    "C08",
                    "C08:completion",
                    format!("all {} members completed; the sink must be completed during the last completion; saw {other:?}", ms.pups.len()),
                    last,
                )),
            }
        }
    } else if let Some((t, M::Terminate)) = &sub.terminal_at {
        out.push(finding("C08", "C08:early-completion", "the sink was completed before every member had completed".to_string(), *t));
    }
    no_panic(cx, "C08", &mut out);
    out
}

pub fn nt_c08(cx: &Ctx) -> bool {
    let acted = cx
        .insts
        .iter()
        .filter(|i| cx.pup_edge(i).iter().any(|e| e.dir == Dir::Down && e.msg != M::Handshake))
        .count();
    (cx.sc.topo.children().len() >= 2 && acted >= 2) || cx.sc.puppets.iter().any(|p| p.late)
}

// =================================================================== C09 concat

pub fn c09(cx: &Ctx) -> Vec<Finding> {
    per_sub(cx, c09_for)
}

fn c09_for(cx: &Ctx, si: usize) -> Vec<Finding> {
    let mut out = vec![];
    let Topo::Concat(ts) = &cx.sc.topo else { return out };
    let Some(ms) = members(cx, ts, si) else { return out };
    let Some(sub) = the_sub(cx, si) else { return out };
    let truncated = !cx.h.panics().is_empty();
    let n = ms.pups.len();
    // subscription timing
    for k in 0..n {
        let inst_k = ms.insts[k];
        if k == 0 {
            if let Some(i) = inst_k {
                if cx.ix.spans[i.created_span].parent.is_some() {
                    out.push(finding("C09", "C09:member0-subscribed-elsewhere", "member 0 was not subscribed directly by the subscription".to_string(), i.created));
                }
            }
            continue;
        }
        let prev = ms.insts[k - 1];
        let prev_done = prev.and_then(|p| match &p.ended_at {
            Some((e, M::Terminate)) if sub.live_at(*e) => Some(*e),
            _ => None,
        });
        match (prev_done, inst_k) {
            (Some(e), Some(i)) => {
                if !within(cx, i.created, span_at(cx, e)) {
                    out.push(finding(
                        "C09",
                        "C09:subscribed-outside-previous-completion",
                        format!("member {k} was subscribed outside the completion of member {}", k - 1),
                        i.created,
                    ));
                }
            }
            (Some(e), None) => {
                let es = span_at(cx, e);
                if !(truncated && cx.ix.spans[es].end >= cx.h.log.len()) {
                    out.push(finding(
                        "C09",
                        "C09:next-member-not-subscribed",
                        format!("member {} completed while the output was live but member {k} was never subscribed", k - 1),
                        e,
                    ));
                }
            }
            (None, Some(i)) => out.push(finding(
                "C09",
                "C09:subscribed-before-previous-completed",
                format!("member {k} was subscribed although member {} had not completed", k - 1),
                i.created,
            )),
            (None, None) => {}
        }
    }
    // data order = concatenation in send order
    let mut sent: Vec<(usize, i64)> = vec![];
    for inst in ms.insts.iter().flatten() {
        for e in cx.pup_edge(inst) {
            if e.dir == Dir::Down && sub.live_at(e.start) {
                if let Some(v) = ival(&e.msg) {
                    sent.push((e.start, v));
                }
            }
        }
    }
    sent.sort();
    let sv: Vec<i64> = sent.iter().map(|s| s.1).collect();
    let gv: Vec<i64> = down_events(cx, sub).into_iter().filter_map(|e| ival(&e.msg)).collect();
    if (!truncated && sv != gv) || (truncated && !sv.starts_with(&gv)) {
        out.push(finding("C09", "C09:data-mismatch", format!("members sent {sv:?} but the sink received {gv:?}"), 0));
    }
    // demand carried across boundaries
    let edge = cx.probe_edge(sub);
    let ever_pulled = edge.iter().any(|e| e.dir == Dir::Up && e.msg == M::Pull);
    if !ever_pulled {
        for inst in ms.insts.iter().flatten() {
            if let Some(e) = cx.pup_edge(inst).iter().find(|e| e.dir == Dir::Up && e.msg == M::Pull) {
                out.push(finding("C09", "C09:pull-without-demand", "a member received a Pull although the sink never pulled".to_string(), e.start));
            }
        }
    }
    for k in 1..n {
        let (Some(prev), Some(i)) = (ms.insts[k - 1], ms.insts[k]) else { continue };
        let Some((b, M::Terminate)) = &prev.ended_at else { continue };
        let pulls = edge.iter().filter(|e| e.dir == Dir::Up && e.msg == M::Pull && e.start < *b).count();
        let data = edge.iter().filter(|e| e.dir == Dir::Down && e.msg.is_data() && e.start < *b).count();
        if pulls > data {
            if let Some(g) = i.greeted_at {
                let gs = span_at(cx, g);
                if truncated && cx.ix.spans[gs].end >= cx.h.log.len() {
                    continue;
                }
                // re-entrant disposal during the greeting makes the pull moot
                let disposed_inside = sub.disposed_at.as_ref().map_or(false, |d| d.0 < cx.ix.spans[gs].end);
                let pulled = cx.pup_edge(i).iter().any(|e| e.dir == Dir::Up && e.msg == M::Pull && within(cx, e.start, gs));
                if !pulled && !disposed_inside {
                    out.push(finding(
                        "C09",
                        "C09:outstanding-pull-lost",
                        format!("a Pull was outstanding ({pulls} pulls, {data} data) when member {} completed but member {k} was not pulled in its greeting", k - 1),
                        g,
                    ));
                }
            }
        }
    }
    // Pull routing: every Pull a member receives is either the relay of one sink Pull (exactly one relay per sink
    // Pull, to the member that is current) or the single re-issue inside its own greeting
    {
        let is_member = |pup: u8, inst: u16| ms.insts.iter().flatten().any(|i| i.pup == pup && i.inst == inst);
        let causes = pulls_by_cause(cx, |s| {
            is_sink_pull(s) || matches!(&s.site, Site::PupSend { msg: M::Handshake, pup, inst } if is_member(*pup, *inst))
        });
        for inst in ms.insts.iter().flatten() {
            let Some(g) = inst.greeted_at else { continue };
            let gs = span_at(cx, g);
            let reissued = causes
                .iter()
                .filter(|(p, c)| {
                    *c == Some(gs) && matches!(&cx.ix.spans[*p].site, Site::PupRecv { pup, inst: k, .. } if *pup == inst.pup && *k == inst.inst)
                })
                .count();
            if reissued > 1 {
                out.push(finding("C09", "C09:pull-reissued-twice", format!("member p{}.{} was pulled {reissued} times inside its greeting", inst.pup, inst.inst), g));
            }
        }
        for (p, c) in &causes {
            let Site::PupRecv { pup, inst, .. } = &cx.ix.spans[*p].site else { continue };
            if !is_member(*pup, *inst) {
                continue;
            }
            let at = cx.ix.spans[*p].start;
            match c {
                None => out.push(finding("C09", "C09:spontaneous-pull", format!("p{pup}.{inst} received a Pull at #{at} that neither a sink Pull nor its own greeting caused"), at)),
                Some(ci) => {
                    // a greeting may only pull the member that is greeting
                    if let Site::PupSend { pup: gp, inst: gi, .. } = &cx.ix.spans[*ci].site {
                        if (gp, gi) != (pup, inst) {
                            out.push(finding("C09", "C09:pull-misrouted", format!("p{pup}.{inst} was pulled inside the greeting of p{gp}.{gi}"), at));
                        }
                    }
                }
            }
        }
        for (xi, x) in cx.ix.spans.iter().enumerate() {
            if !matches!(&x.site, Site::SinkSend { msg: M::Pull, sink, sub: k } if *sink == sub.sink && *k == sub.sub) {
                continue;
            }
            if x.end >= cx.h.log.len() && truncated {
                continue;
            }
            let got: Vec<(u8, u16)> = causes
                .iter()
                .filter(|(_, c)| *c == Some(xi))
                .filter_map(|(p, _)| if let Site::PupRecv { pup, inst, .. } = &cx.ix.spans[*p].site { Some((*pup, *inst)) } else { None })
                .filter(|(p, i)| is_member(*p, *i))
                .collect();
            // the member that is current when the Pull begins: greeted, not ended, not terminated
            let current: Vec<(u8, u16)> = ms
                .insts
                .iter()
                .flatten()
                .filter(|i| i.greeted_at.map_or(false, |g| g < x.start) && i.live_at(x.start))
                .map(|i| (i.pup, i.inst))
                .collect();
            let ok = if !sub.live_at(x.start) {
                true // C03/C04 territory
            } else if current.len() == 1 {
                got == current
            } else {
                // between members (the next one has not greeted yet) nothing can be pulled
                got.is_empty() || current.len() > 1
            };
            if !ok {
                out.push(finding(
                    "C09",
                    "C09:pull-routing",
                    format!("sink Pull at #{}: the current member is {current:?} but the Pull was relayed to {got:?}", x.start),
                    x.start,
                ));
            }
        }
    }
    // completion after the last member
    let last_done = ms.insts[n - 1].and_then(|p| match &p.ended_at {
        Some((e, M::Terminate)) if sub.live_at(*e) => Some(*e),
        _ => None,
    });
    match last_done {
        Some(e) => {
            let es = span_at(cx, e);
            if !(truncated && cx.ix.spans[es].end >= cx.h.log.len()) {
                match &sub.terminal_at {
                    Some((t, M::Terminate)) if within(cx, *t, es) => {}
                    other => out.push(finding("C09", "C09:completion", format!("the last member completed; the sink must complete during it; saw {other:?}"), e)),
                }
            }
        }
        None => {
            if let Some((t, M::Terminate)) = &sub.terminal_at {
                out.push(finding("C09", "C09:early-completion", "the sink was completed before the last member had completed".to_string(), *t));
            }
        }
    }
    completed_once(cx, "C09", sub, &mut out);
    no_panic(cx, "C09", &mut out);
    out
}

pub fn nt_c09(cx: &Ctx) -> bool {
    let Topo::Concat(ts) = &cx.sc.topo else { return false };
    if ts.len() < 2 {
        return false;
    }
    let crossed = cx.insts.len() >= 2;
    let stopped = cx.insts.len() < ts.len()
        && cx.subs.first().map_or(false, |s| s.over_at().is_some());
    crossed || stopped
}

// =================================================================== C10 combine

pub fn c10(cx: &Ctx) -> Vec<Finding> {
    per_sub(cx, c10_for)
}

fn c10_for(cx: &Ctx, si: usize) -> Vec<Finding> {
    let mut out = vec![];
    let Topo::Combine(ts) = &cx.sc.topo else { return out };
    if !cx.sc.root_tuple {
        return out; // the tuple is packed into one i64 by a map stage: not this model's shape
    }
    let Some(ms) = members(cx, ts, si) else { return out };
    let Some(sub) = the_sub(cx, si) else { return out };
    let truncated = !cx.h.panics().is_empty();
    let n = ms.pups.len();
    // the verdict stops at the first member Error (C05 / D6 territory)
    let horizon = ms
        .insts
        .iter()
        .flatten()
        .filter_map(|i| match &i.ended_at {
            Some((e, M::Error(_))) => Some(*e),
            _ => None,
        })
        .min()
        .unwrap_or(usize::MAX);
    // greeting: inside the last outstanding member greeting
    let greets: Vec<usize> = ms.insts.iter().flatten().filter_map(|i| i.greeted_at).collect();
    if greets.len() == n {
        let last = *greets.iter().max().unwrap();
        if last < horizon {
            match sub.greeted_at {
                Some(x) if within(cx, x, span_at(cx, last)) => {}
                other => {
                    if !truncated {
                        out.push(finding("C10", "C10:greeting", format!("all members greeted; the sink must be greeted during the last greeting; saw {other:?}"), last))
                    }
                }
            }
        }
    } else if let Some(x) = sub.greeted_at {
        if x < horizon {
            out.push(finding("C10", "C10:greeted-early", "the sink was greeted before every member had greeted".to_string(), x));
        }
    }
    // tuples
    let mut latest: Vec<Option<i64>> = vec![None; n];
    let mut expected: Vec<(usize, Vec<i64>)> = vec![]; // (span of the member send, tuple)
    let mut sends: Vec<(usize, usize, i64, usize)> = vec![]; // start, member, value, span
    for (j, inst) in ms.insts.iter().enumerate() {
        let Some(inst) = inst else { continue };
        for e in cx.pup_edge(inst) {
            if e.dir == Dir::Down && sub.live_at(e.start) && e.start < horizon {
                if let Some(v) = ival(&e.msg) {
                    sends.push((e.start, j, v, e.span));
                }
            }
        }
    }
    sends.sort();
    for (_, j, v, span) in &sends {
        latest[*j] = Some(*v);
        if latest.iter().all(|x| x.is_some()) {
            expected.push((*span, latest.iter().map(|x| x.unwrap()).collect()));
        }
    }
    let got: Vec<(usize, Vec<i64>, usize)> = down_events(cx, sub)
        .into_iter()
        .filter(|e| e.start < horizon)
        .filter_map(|e| match &e.msg {
            M::Data(Val::T(v)) => Some((e.start, v.clone(), e.span)),
            _ => None,
        })
        .collect();
    let ev: Vec<&Vec<i64>> = expected.iter().map(|e| &e.1).collect();
    let gv: Vec<&Vec<i64>> = got.iter().map(|g| &g.1).collect();
    let prefix_ok = gv.len() <= ev.len() && ev[..gv.len()] == gv[..];
    if (!truncated && horizon == usize::MAX && ev != gv) || !prefix_ok {
        out.push(finding(
            "C10",
            "C10:tuple-mismatch",
            format!("expected tuples {ev:?} (latest value of every member, one per datum once all have one) but the sink received {gv:?}"),
            0,
        ));
        return out;
    }
    if horizon != usize::MAX && gv.len() + 1 < ev.len() {
        // everything before the horizon except possibly the delivery in flight must have arrived
        out.push(finding("C10", "C10:tuple-missing", format!("expected tuples {ev:?} before the first member error but the sink received {gv:?}"), 0));
    }
    for (g, e) in got.iter().zip(expected.iter()) {
        if cx.ix.enclosing(g.2, |sp| matches!(sp.site, Site::PupSend { msg: M::Data(_), .. })) != Some(e.0) {
            out.push(finding("C10", "C10:tuple-outside-its-datum", format!("tuple {:?} was not delivered during the member datum that caused it", g.1), g.0));
        }
    }
    // "every sink Pull reaches every member that is still running" does not depend on how a member's failure is
    // reported: it is checked after a member Error too
    pull_broadcast(cx, "C10", "combine", &ms, sub, &mut out);
    if horizon == usize::MAX {
        let all_done = ms.insts.iter().all(|i| {
            i.map_or(false, |i| matches!(&i.ended_at, Some((e, M::Terminate)) if sub.live_at(*e)))
        });
        if all_done {
            let last = ms.insts.iter().flatten().filter_map(|i| i.ended_at.as_ref().map(|e| e.0)).max().unwrap();
            let ls = span_at(cx, last);
            if !(truncated && cx.ix.spans[ls].end >= cx.h.log.len()) {
                match &sub.terminal_at {
                    Some((t, M::Terminate)) if within(cx, *t, ls) => {}
                    other => out.push(finding("C10", "C10:completion", format!("all members ended; the sink must complete during the last end; saw {other:?}"), last)),
                }
            }
        } else if let Some((t, M::Terminate)) = &sub.terminal_at {
            out.push(finding("C10", "C10:early-completion", "the sink was completed before every member had ended".to_string(), *t));
        }
    }
    if horizon != usize::MAX {
        // some member failed (C05 / D6 territory: the crate treats the failure as a plain end). Whatever is
        // decided about the error value, "the sink completes after all members have ended" still applies: when
        // every member has ended by itself while the output was live, the last end must terminate the sink
        let all_ended = ms.insts.iter().all(|i| i.map_or(false, |i| matches!(&i.ended_at, Some((e, _)) if sub.live_at(*e))));
        if all_ended {
            let last = ms.insts.iter().flatten().filter_map(|i| i.ended_at.as_ref().map(|e| e.0)).max().unwrap();
            let ls = span_at(cx, last);
            if !(truncated && cx.ix.spans[ls].end >= cx.h.log.len()) {
                match &sub.terminal_at {
                    Some((t, _)) if *t < cx.ix.spans[ls].end => {}
                    other => out.push(finding(
                        "C10",
                        "C10:never-terminated-after-all-ended",
                        format!("all members ended (one of them with an Error); the sink must be terminated by the last end at the latest; saw {other:?}"),
                        last,
                    )),
                }
            }
        }
    }
    completed_once(cx, "C10", sub, &mut out);
    no_panic(cx, "C10", &mut out);
    out
}

pub fn nt_c10(cx: &Ctx) -> bool {
    let Topo::Combine(ts) = &cx.sc.topo else { return false };
    let Some(sub) = the_sub(cx, 0) else { return false };
    let tuples = down_events(cx, sub).into_iter().filter(|e| e.msg.is_data()).count();
    ts.len() >= 1 && tuples >= 2
}

// =================================================================== C11 flatten

pub fn c11(cx: &Ctx) -> Vec<Finding> {
    per_sub(cx, c11_for)
}

fn c11_for(cx: &Ctx, si: usize) -> Vec<Finding> {
    let mut out = vec![];
    let Topo::Flatten { outer, inners, .. } = &cx.sc.topo else { return out };
    let inner_pups: Vec<u8> = inners
        .iter()
        .filter_map(|t| if let Topo::Puppet(p) = t { Some(*p) } else { None })
        .collect();
    if inner_pups.len() != inners.len() {
        return out;
    }
    let Some(sub) = the_sub(cx, si) else { return out };
    let Some(oinst) = only_inst(cx, *outer, si) else { return out };
    let truncated = !cx.h.panics().is_empty();
    let unfinished = |span: usize| truncated && cx.ix.spans[span].end >= cx.h.log.len();

    // state machine over the relevant events in log order
    #[derive(Clone, Copy, PartialEq, Debug)]
    struct Cur {
        pup: u8,
        inst: u16,
    }
    let mut outer_alive = false;
    let mut current: Option<Cur> = None;
    let mut over = false;
    let mut expected_data: Vec<i64> = vec![];
    // state snapshots at each position (for Pull routing)
    let mut snaps: Vec<(usize, bool, Option<Cur>, bool)> = vec![];
    let is_inner = |p: u8| inner_pups.contains(&p);
    for (si, sp) in cx.ix.spans.iter().enumerate() {
        let pos = sp.start;
        if let Some(o) = sub.over_at() {
            if o <= pos {
                over = true;
            }
        }
        match &sp.site {
            Site::PupSend { pup, inst, msg } if *pup == *outer && *inst == oinst.inst => match msg {
                M::Handshake => outer_alive = true,
                M::Data(Val::Src(k)) if !over => {
                    // switch: previous inner disposed exactly once inside this send, new inner subscribed inside it
                    if let Some(prev) = current {
                        if let Some(pi) = cx.inst(prev.pup, prev.inst) {
                            let n_in = pi.terms.iter().filter(|(t, _)| within(cx, *t, si)).count();
                            if !unfinished(si) && (n_in != 1 || pi.terms.len() != 1) {
                                out.push(finding(
                                    "C11",
                                    "C11:previous-inner-not-disposed-once",
                                    format!("on the switch to inner #{k} the previous inner p{}.{} received {:?}", prev.pup, prev.inst, pi.terms),
                                    pos,
                                ));
                            }
                        }
                    }
                    let newp = inner_pups[*k as usize];
                    let new_inst = cx.insts.iter().find(|i| i.pup == newp && within(cx, i.created, si));
                    match new_inst {
                        Some(ni) => {
                            current = Some(Cur { pup: ni.pup, inst: ni.inst });
                            // exactly one Pull inside its own greeting
                            if let Some(g) = ni.greeted_at {
                                let gs = span_at(cx, g);
                                let pulls_in_greeting = cx
                                    .pup_edge(ni)
                                    .iter()
                                    .filter(|e| e.dir == Dir::Up && e.msg == M::Pull && within(cx, e.start, gs))
                                    .filter(|e| {
                                        cx.ix.enclosing(e.span, |s| {
                                            is_sink_pull(s)
                                                || matches!(s.site, Site::PupSend { msg: M::Handshake, .. })
                                                || matches!(s.site, Site::PupSend { msg: M::Terminate, .. })
                                        }) == Some(gs)
                                    })
                                    .count();
                                if pulls_in_greeting != 1 && !unfinished(gs) {
                                    out.push(finding(
                                        "C11",
                                        "C11:inner-greeting-pull",
                                        format!("inner p{}.{} received {pulls_in_greeting} Pulls caused by its greeting (exactly one expected)", ni.pup, ni.inst),
                                        g,
                                    ));
                                }
                            }
                        }
                        None => {
                            if !unfinished(si) {
                                out.push(finding("C11", "C11:inner-not-subscribed", format!("the outer emitted inner #{k} but it was not subscribed during that delivery"), pos));
                            }
                            current = None;
                        }
                    }
                }
                M::Terminate if !over => {
                    outer_alive = false;
                    if current.is_none() {
                        if !unfinished(si) && !matches!(&sub.terminal_at, Some((t, M::Terminate)) if within(cx, *t, si)) {
                            out.push(finding("C11", "C11:completion", "the outer completed with no active inner; the sink must complete during it".to_string(), pos));
                        }
                        over = true;
                    }
                }
                M::Error(_) if !over => {
                    outer_alive = false;
                    over = true;
                }
                _ => {}
            },
            Site::PupSend { pup, inst, msg } if is_inner(*pup) => {
                let me = Cur { pup: *pup, inst: *inst };
                match msg {
                    M::Data(Val::I(v)) if !over && current == Some(me) => expected_data.push(*v),
                    M::Terminate if !over && current == Some(me) => {
                        if outer_alive {
                            current = None;
                            // flatten asks the outer for the next inner
                            let pulled = cx.pup_edge(oinst).iter().any(|e| e.dir == Dir::Up && e.msg == M::Pull && within(cx, e.start, si));
                            if !pulled && !unfinished(si) {
                                out.push(finding("C11", "C11:outer-not-pulled-after-inner", "an inner completed while the outer was alive but the outer was not pulled".to_string(), pos));
                            }
                        } else {
                            if !unfinished(si) && !matches!(&sub.terminal_at, Some((t, M::Terminate)) if within(cx, *t, si)) {
                                out.push(finding("C11", "C11:completion", "the active inner completed after the outer; the sink must complete during it".to_string(), pos));
                            }
                            over = true;
                        }
                    }
                    M::Error(_) if !over && current == Some(me) => {
                        over = true;
                    }
                    _ => {}
                }
            }
            _ => {}
        }
        snaps.push((pos, outer_alive, current, over));
    }
    // data: only the active inner speaks
    let gv: Vec<i64> = down_events(cx, sub).into_iter().filter_map(|e| ival(&e.msg)).collect();
    if (!truncated && gv != expected_data) || (truncated && !expected_data.starts_with(&gv)) {
        out.push(finding(
            "C11",
            "C11:data-mismatch",
            format!("the active inner sources sent {expected_data:?} but the sink received {gv:?}"),
            0,
        ));
    }
    // completion nowhere else
    if let Some((t, M::Terminate)) = &sub.terminal_at {
        let ok = cx.ix.enclosing(span_at(cx, *t), |s| matches!(s.site, Site::PupSend { msg: M::Terminate, .. })).is_some();
        if !ok {
            out.push(finding("C11", "C11:spurious-completion", "the sink was completed outside any completion of the outer or an inner".to_string(), *t));
        }
    }
    // Pull routing
    let state_at = |pos: usize| -> (bool, Option<Cur>, bool) {
        let mut st = (false, None, false);
        for s in &snaps {
            if s.0 <= pos {
                st = (s.1, s.2, s.3);
            } else {
                break;
            }
        }
        st
    };
    let causes = pulls_by_cause(cx, |s| {
        is_sink_pull(s)
            || matches!(&s.site, Site::PupSend { msg: M::Handshake, pup, .. } if is_inner(*pup))
            || matches!(&s.site, Site::PupSend { msg: M::Terminate, pup, .. } if is_inner(*pup))
    });
    for (xi, x) in cx.ix.spans.iter().enumerate() {
        if !matches!(&x.site, Site::SinkSend { msg: M::Pull, sink, sub: k } if *sink == sub.sink && *k == sub.sub) || unfinished(xi) {
            continue;
        }
        let (oa, cur, ov) = state_at(x.start);
        let mine: Vec<&Site> = causes.iter().filter(|(_, c)| *c == Some(xi)).map(|(p, _)| &cx.ix.spans[*p].site).collect();
        let want: Option<(u8, u16)> = if ov {
            None
        } else if let Some(c) = cur {
            Some((c.pup, c.inst))
        } else if oa {
            Some((*outer, oinst.inst))
        } else {
            None
        };
        let got: Vec<(u8, u16)> = mine
            .iter()
            .filter_map(|s| if let Site::PupRecv { pup, inst, .. } = s { Some((*pup, *inst)) } else { None })
            .collect();
        let ok = match want {
            Some(w) => got == vec![w],
            None => got.is_empty(),
        };
        if !ok {
            out.push(finding(
                "C11",
                "C11:pull-routing",
                format!("sink Pull at #{}: expected the Pull to go to {want:?} (active inner, else outer) but it went to {got:?}", x.start),
                x.start,
            ));
        }
    }
    for (p, c) in &causes {
        let mine = matches!(&cx.ix.spans[*p].site, Site::PupRecv { pup, inst, .. } if cx.inst(*pup, *inst).map_or(false, |i| i.sub == Some(si)));
        if c.is_none() && mine {
            out.push(finding("C11", "C11:spontaneous-pull", format!("{} has no cause", cx.ix.spans[*p].site.short()), cx.ix.spans[*p].start));
        }
    }
    completed_once(cx, "C11", sub, &mut out);
    no_panic(cx, "C11", &mut out);
    out
}

pub fn nt_c11(cx: &Ctx) -> bool {
    let Topo::Flatten { outer, .. } = &cx.sc.topo else { return false };
    let inner_insts = cx.insts.iter().filter(|i| i.pup != *outer).count();
    let outer_ended = cx.insts.iter().any(|i| i.pup == *outer && i.ended_at.is_some());
    let inner_ended = cx.insts.iter().any(|i| i.pup != *outer && i.ended_at.is_some());
    inner_insts >= 2 || (outer_ended && inner_ended)
}

// =================================================================== C12 share

pub fn c12(cx: &Ctx) -> Vec<Finding> {
    let mut out = vec![];
    let Topo::Share(inner) = &cx.sc.topo else { return out };
    let Topo::Puppet(pup) = **inner else { return out };
    let truncated = !cx.h.panics().is_empty();
    let unfinished = |span: usize| truncated && cx.ix.spans[span].end >= cx.h.log.len();
    // model: attached list and the live upstream instance, replayed over the log
    let mut attached: Vec<(u8, u16)> = vec![];
    let mut upstream: Option<u16> = None;
    // expected deliveries per (sink, sub); each entry remembers the fan-out (log index of the send) it belongs to
    let mut expect: std::collections::BTreeMap<(u8, u16), Vec<(usize, M)>> = Default::default();
    // fan-outs in progress: (log index of the upstream send, is it a terminal, sinks not served yet)
    let mut open: Vec<(usize, bool, Vec<(u8, u16)>)> = vec![];
    for (i, ev) in cx.h.log.iter().enumerate() {
        match ev {
            Ev::Exit(e) => {
                if let Some(p) = open.iter().position(|f| f.0 == *e) {
                    open.truncate(p);
                }
            }
            Ev::Step { .. } => open.clear(),
            Ev::Attach { sink, sub } => {
                let fresh_needed = attached.is_empty();
                let during_end = open.iter().any(|f| f.1);
                attached.push((*sink, *sub));
                expect.entry((*sink, *sub)).or_default();
                // upstream subscriptions made inside this attach call (before the attach returns to its
                // caller: the next Step, or the next event of the enclosing handler)
                let attach_span_end = cx
                    .subs
                    .iter()
                    .find(|s| s.sink == *sink && s.sub == *sub)
                    .and_then(|s| s.greeted_at)
                    .and_then(|g| cx.ix.span_of_enter[g])
                    .map(|sp| cx.ix.spans[sp].end)
                    .unwrap_or(i);
                let horizon = cx.h.log[i..]
                    .iter()
                    .position(|e| matches!(e, Ev::Step { .. }))
                    .map_or(cx.h.log.len(), |p| i + p);
                let created: Vec<&InstInfo> = cx
                    .insts
                    .iter()
                    .filter(|x| x.pup == pup && x.created > i && x.created < horizon && (!during_end || x.created <= attach_span_end.max(i)))
                    .filter(|x| {
                        // not created by a later attach inside the same step
                        !cx.h.log[i + 1..x.created].iter().any(|e| matches!(e, Ev::Attach { .. }))
                    })
                    .collect();
                if fresh_needed {
                    if created.len() != 1 {
                        if !truncated {
                            if during_end {
                                out.push(finding(
                                    "C12",
                                    "C12:no-fresh-upstream-for-attach-during-end",
                                    format!("s{sink}.{sub} subscribed from inside the delivery of the source's end (nobody is attached any more); {} upstream subscriptions were started", created.len()),
                                    i,
                                ));
                                // everything after this point is a consequence of that
                                return out;
                            }
                            out.push(finding("C12", "C12:upstream-not-started", format!("s{sink}.{sub} attached while nobody was attached; {} upstream subscriptions were started", created.len()), i));
                        }
                    } else {
                        upstream = Some(created[0].inst);
                    }
                } else if !created.is_empty() {
                    out.push(finding("C12", "C12:second-upstream-subscription", format!("s{sink}.{sub} attached while others were attached, yet upstream was subscribed again"), i));
                }
            }
            Ev::Enter(Site::SinkRecv { sink, sub, msg }) if *msg != M::Handshake => {
                // served: innermost open fan-out of the same message that still owes this sink
                if let Some(f) = open.iter_mut().rev().find(|f| f.2.contains(&(*sink, *sub))) {
                    f.2.retain(|x| *x != (*sink, *sub));
                }
            }
            Ev::Enter(Site::SinkSend { sink, sub, msg }) if msg.is_terminal() => {
                let was = attached.iter().position(|a| *a == (*sink, *sub));
                // a sink that leaves in the middle of a fan-out that has not reached it yet is skipped by it
                for f in open.iter_mut() {
                    if f.2.contains(&(*sink, *sub)) {
                        f.2.retain(|x| *x != (*sink, *sub));
                        if let Some(v) = expect.get_mut(&(*sink, *sub)) {
                            if let Some(p) = v.iter().rposition(|(fo, _)| *fo == f.0) {
                                v.remove(p);
                            }
                        }
                    }
                }
                if let Some(p) = was {
                    attached.remove(p);
                    let span = span_at(cx, i);
                    let up = upstream.and_then(|u| cx.inst(pup, u));
                    let terms_inside = up.map_or(0, |u| u.terms.iter().filter(|(t, _)| within(cx, *t, span)).count());
                    if attached.is_empty() {
                        if let Some(u) = up {
                            let alive = u.ended_at.as_ref().map_or(true, |(e, _)| *e > i);
                            if alive && terms_inside != 1 && !unfinished(span) {
                                out.push(finding("C12", "C12:upstream-not-disposed-on-last-detach", format!("the last sink detached; upstream received {terms_inside} terminations during the detach"), i));
                            }
                        }
                        upstream = None;
                    } else if terms_inside != 0 {
                        out.push(finding("C12", "C12:upstream-disposed-early", "a sink detached while others were attached, yet upstream was disposed".to_string(), i));
                    }
                }
            }
            Ev::Enter(Site::PupSend { pup: p, inst, msg }) if *p == pup && Some(*inst) == upstream && *msg != M::Handshake => {
                for a in &attached {
                    expect.entry(*a).or_default().push((i, msg.clone()));
                }
                open.push((i, msg.is_terminal(), attached.clone()));
                if msg.is_terminal() {
                    attached.clear();
                    upstream = None;
                }
            }
            Ev::Enter(Site::SinkSend { sink, sub, msg: M::Pull }) => {
                let span = span_at(cx, i);
                if unfinished(span) {
                    continue;
                }
                let n = cx
                    .ix
                    .spans
                    .iter()
                    .enumerate()
                    .filter(|(k, s)| matches!(s.site, Site::PupRecv { msg: M::Pull, .. }) && cx.ix.enclosing(*k, is_sink_pull) == Some(span))
                    .count();
                if n != 1 && attached.contains(&(*sink, *sub)) {
                    out.push(finding("C12", "C12:pull-relay", format!("a Pull of s{sink}.{sub} produced {n} upstream Pulls"), i));
                }
            }
            _ => {}
        }
    }
    // at most one live instance at any time
    let mut insts: Vec<&InstInfo> = cx.insts.iter().filter(|i| i.pup == pup).collect();
    insts.sort_by_key(|i| i.created);
    for w in insts.windows(2) {
        let a = w[0];
        let end_a = a.ended_at.as_ref().map(|e| e.0).into_iter().chain(a.terms.first().map(|t| t.0)).min();
        if end_a.map_or(true, |e| e > w[1].created) {
            out.push(finding("C12", "C12:two-live-upstreams", format!("p{}.{} was subscribed while p{}.{} was still alive", w[1].pup, w[1].inst, a.pup, a.inst), w[1].created));
        }
    }
    // "upstream is disposed exactly when the last attached sink detaches": at most once per upstream subscription,
    // and never after that subscription has ended by itself (then nobody is attached any more)
    for u in &insts {
        if u.terms.len() > 1 {
            out.push(finding("C12", "C12:upstream-disposed-twice", format!("p{}.{} received {} terminations", u.pup, u.inst, u.terms.len()), u.terms[1].0));
        }
        if let Some((e, m)) = &u.ended_at {
            if let Some((t, _)) = u.terms.iter().find(|(t, _)| t > e) {
                out.push(finding(
                    "C12",
                    "C12:upstream-disposed-after-own-end",
                    format!("p{}.{} had ended by itself with {} and was disposed afterwards", u.pup, u.inst, m.short()),
                    *t,
                ));
            }
        }
    }
    // every attached sink receives exactly what was emitted while it was attached
    for s in &cx.subs {
        let want: Vec<M> = expect.get(&(s.sink, s.sub)).map(|v| v.iter().map(|x| x.1.clone()).collect()).unwrap_or_default();
        let got: Vec<M> = down_events(cx, s).into_iter().filter(|e| e.msg != M::Handshake).map(|e| e.msg.clone()).collect();
        let ok = if truncated { want.starts_with(&got) || got == want } else { got == want };
        if !ok {
            out.push(finding(
                "C12",
                "C12:fanout-mismatch",
                format!("s{}.{} should have received {:?} while attached but received {:?}", s.sink, s.sub, want.iter().map(|m| m.short()).collect::<Vec<_>>(), got.iter().map(|m| m.short()).collect::<Vec<_>>()),
                s.attach_at,
            ));
        }
        if s.greeted_at.is_none() && !truncated {
            out.push(finding("C12", "C12:not-greeted", format!("s{}.{} attached but was never greeted", s.sink, s.sub), s.attach_at));
        }
    }
    out
}

pub fn nt_c12(cx: &Ctx) -> bool {
    // two probes overlapped in time, or a restart happened
    let overlap = cx.subs.iter().any(|a| {
        cx.subs.iter().any(|b| {
            (a.sink, a.sub) != (b.sink, b.sub)
                && b.attach_at > a.attach_at
                && a.over_at().map_or(true, |o| o > b.attach_at)
        })
    });
    let restarts = cx.insts.len() >= 2;
    overlap || restarts
}
