//! Per-property check definitions over the `world` engine: which scenario profiles are generated,
//! which oracle decides, and which cases count as non-trivial.

use crate::hist::*;
use crate::counts;
use crate::models;
use crate::oracle::{self, Ctx, Dir, Finding};
use crate::run::{Engine, Outcome};
use crate::scn::{self, *};
use crate::world;
use serde::{Deserialize, Serialize};

#[derive(Clone, Debug, Serialize, Deserialize)]
pub struct WCase {
    pub profile: Profile,
    pub sc: Scenario,
}

pub struct WorldEngine {
    pub prop: &'static str,
    pub profiles: Vec<(Profile, u32)>,
    pub max_steps: usize,
    pub oracle: fn(&Ctx, &WCase) -> Vec<Finding>,
    pub nontrivial: fn(&Ctx, &WCase) -> bool,
}

impl WorldEngine {
    fn pick_profile(&self, b: u8) -> Profile {
        let total: u32 = self.profiles.iter().map(|p| p.1).sum();
        let mut x = (b as u32 * total) >> 8;
        for (p, w) in &self.profiles {
            if x < *w {
                return *p;
            }
            x -= w;
        }
        self.profiles[0].0
    }
}

pub fn classes_of(cx: &Ctx, case: &WCase) -> Vec<String> {
    let mut v = vec![format!("profile:{:?}", case.profile), format!("root:{}", case.sc.topo.op_name())];
    let n = cx.sc.topo.size();
    v.push(format!("topo_nodes:{}", if n <= 2 { "1-2" } else if n <= 5 { "3-5" } else { "6+" }));
    if cx.subs.iter().any(|s| s.disposed_at.is_some()) {
        v.push("sink_disposed".into());
    }
    if cx.subs.iter().any(|s| s.terminal_at.is_some()) {
        v.push("sink_got_terminal".into());
    }
    if cx.insts.iter().any(|i| matches!(i.ended_at, Some((_, M::Error(_))))) {
        v.push("upstream_error".into());
    }
    if cx.sc.puppets.iter().any(|p| p.late) {
        v.push("late_greeter".into());
    }
    if nested_reaction(cx) {
        v.push("reentrant_sink_action".into());
    }
    v
}

impl Engine for WorldEngine {
    type Case = WCase;
    fn name(&self) -> &'static str {
        "world"
    }
    fn decode(&self, bytes: &[u8]) -> WCase {
        let b0 = bytes.first().copied().unwrap_or(0);
        let profile = self.pick_profile(b0);
        let rest = if bytes.is_empty() { bytes } else { &bytes[1..] };
        let mut sc = scn::decode(profile, rest, self.max_steps);
        if !scn::TEARDOWN_PROPS.contains(&self.prop) {
            scn::strip_teardown(&mut sc);
        }
        WCase { profile, sc }
    }
    fn eval(&self, case: &WCase) -> Outcome {
        let h = world::run(&case.sc);
        let cx = Ctx::new(&case.sc, &h);
        let findings = (self.oracle)(&cx, case);
        let nontrivial = (self.nontrivial)(&cx, case);
        Outcome {
            findings,
            nontrivial,
            digest: h.digest(),
            classes: classes_of(&cx, case),
            skipped_by_guard: h.skipped_by_guard,
            harness_errors: h.harness_errors.clone(),
        }
    }
    fn render(&self, case: &WCase) -> String {
        world::run(&case.sc).render()
    }
    fn minimise(&self, case: &WCase, still_fails: &mut dyn FnMut(&WCase) -> bool) -> WCase {
        let profile = case.profile;
        let sc = scn::minimise(&case.sc, |s| still_fails(&WCase { profile, sc: s.clone() }), 30000);
        WCase { profile, sc }
    }
}

// ------------------------------------------------------------------ non-trivial rules

fn is_greeting_span(s: &Span) -> bool {
    matches!(
        &s.site,
        Site::PupRecv { msg: M::Handshake, .. }
            | Site::PupSend { msg: M::Handshake, .. }
            | Site::SinkRecv { msg: M::Handshake, .. }
            | Site::TapDown { msg: M::Handshake, .. }
    )
}

/// some upstream acted inside a greeting, or greeted late, or the sink reacted inside its handshake handler
pub fn acted_inside_greeting(cx: &Ctx) -> bool {
    for (i, sp) in cx.ix.spans.iter().enumerate() {
        match &sp.site {
            Site::PupSend { msg, .. } if *msg != M::Handshake => {
                if cx.ix.enclosing(i, is_greeting_span).is_some() {
                    return true;
                }
            }
            Site::PupSend { msg: M::Handshake, .. } => {
                // late greeting: not inside the subscribing call
                if cx.ix.enclosing(i, |s| matches!(s.site, Site::PupRecv { msg: M::Handshake, .. })).is_none() {
                    return true;
                }
            }
            Site::SinkSend { .. } => {
                if cx.ix.enclosing(i, |s| matches!(s.site, Site::SinkRecv { msg: M::Handshake, .. })).is_some() {
                    return true;
                }
            }
            _ => {}
        }
    }
    false
}

pub fn nested_reaction(cx: &Ctx) -> bool {
    cx.ix.spans.iter().enumerate().any(|(i, sp)| {
        matches!(sp.site, Site::SinkSend { .. })
            && cx.ix.enclosing(i, |s| matches!(s.site, Site::SinkRecv { .. })).is_some()
    })
}

fn nt_c01(cx: &Ctx, _c: &WCase) -> bool {
    acted_inside_greeting(cx)
}

fn nt_c02(cx: &Ctx, _c: &WCase) -> bool {
    cx.subs.iter().any(|s| {
        let Some((t, _)) = &s.terminal_at else { return false };
        let later_step = cx.h.log[*t..].iter().any(|e| matches!(e, Ev::Step { .. }));
        let other_live = cx.insts.iter().any(|i| i.live_at(*t));
        later_step || other_live
    })
}

fn nt_c03(cx: &Ctx, _c: &WCase) -> bool {
    cx.subs.iter().any(|s| {
        let Some((d, _)) = &s.disposed_at else { return false };
        cx.insts.iter().any(|i| i.live_at(*d))
    })
}

fn nt_c04(cx: &Ctx, _c: &WCase) -> bool {
    let over_with_live = cx.subs.iter().any(|s| {
        let Some(o) = s.over_at() else { return false };
        cx.insts.iter().any(|i| i.live_at(o))
    });
    let ended_then_term = cx.insts.iter().any(|i| {
        let Some((e, _)) = &i.ended_at else { return false };
        cx.subs.iter().any(|s| s.over_at().map_or(false, |o| o > *e))
            || cx.insts.iter().any(|j| j.terms.iter().any(|(t, _)| t > e))
    });
    over_with_live || ended_then_term
}

fn nt_c05(cx: &Ctx, _c: &WCase) -> bool {
    cx.insts.iter().any(|i| {
        let Some((x, M::Error(_))) = &i.ended_at else { return false };
        if cx.has_share {
            cx.subs.iter().any(|s| s.live_at(*x))
        } else {
            i.sub.map_or(false, |si| cx.subs[si].live_at(*x))
        }
    })
}

fn nt_c17(cx: &Ctx, _c: &WCase) -> bool {
    if acted_inside_greeting(cx) {
        return true;
    }
    // a member ending inside its greeting, or a Pull inside a greeting
    cx.ix.spans.iter().enumerate().any(|(i, sp)| {
        matches!(&sp.site, Site::PupRecv { msg: M::Pull, .. })
            && cx.ix.enclosing(i, is_greeting_span).is_some()
    })
}

// ------------------------------------------------------------------ definitions

const STD: [(Profile, u32); 7] = [
    (Profile::AnySingle, 34),
    (Profile::Composed, 33),
    (Profile::Share, 6),
    (Profile::ShareNested, 7),
    (Profile::ShareCross, 5),
    (Profile::ForEach, 5),
    (Profile::Indep, 10),
];

pub fn world_engine(prop: &str, thorough: bool) -> Option<WorldEngine> {
    // development aid: "LATExx" = the oracle of Cxx over the late-greeter profiles only
    if let Some(n) = prop.strip_prefix("LATE") {
        let base: &'static str = Box::leak(format!("C{n}").into_boxed_str());
        let mut e = world_engine(base, thorough)?;
        e.profiles = vec![(Profile::LateAny, 1), (Profile::LateShare, 1)];
        return Some(e);
    }
    let max_steps = if thorough { 48 } else { 24 };
    let e = match prop {
        "C01" => WorldEngine {
            prop: "C01",
            profiles: {
                // late greeters under operators other than merge! are beyond the stated quantifier; the
                // statement's premise (conformant upstreams) covers them and the unchanged tree is quiet
                let mut v = STD.to_vec();
                v.push((Profile::LateAny, 5));
                v.push((Profile::LateShare, 5));
                v
            },
            max_steps,
            oracle: |cx, _| oracle::c01(cx),
            nontrivial: nt_c01,
        },
        "C02" => WorldEngine {
            prop: "C02",
            profiles: STD.to_vec(),
            max_steps,
            oracle: |cx, _| oracle::c02(cx),
            nontrivial: nt_c02,
        },
        "C03" => WorldEngine {
            prop: "C03",
            profiles: STD.to_vec(),
            max_steps,
            oracle: |cx, _| oracle::c03(cx),
            nontrivial: nt_c03,
        },
        "C04" => WorldEngine {
            prop: "C04",
            profiles: vec![
                (Profile::AnySingle, 36),
                (Profile::Composed, 28),
                (Profile::ForEach, 14),
                (Profile::Share, 10),
                (Profile::Indep, 12),
            ],
            max_steps,
            oracle: |cx, _| oracle::c04(cx),
            nontrivial: nt_c04,
        },
        "C05" => WorldEngine {
            prop: "C05",
            profiles: vec![
                (Profile::AnySingle, 42),
                (Profile::Composed, 30),
                (Profile::Share, 7),
                (Profile::ShareNested, 8),
                (Profile::ShareCross, 5),
                (Profile::Indep, 10),
                (Profile::Refuse, 6),
            ],
            max_steps,
            oracle: |cx, _| oracle::c05(cx),
            nontrivial: nt_c05,
        },
        "C17" => WorldEngine {
            prop: "C17",
            profiles: vec![
                (Profile::AnySingle, 30),
                (Profile::Composed, 40),
                (Profile::Share, 10),
                (Profile::ForEach, 10),
                (Profile::Indep, 10),
                (Profile::LateAny, 8),
                (Profile::ShareCross, 5),
                (Profile::ShareReattach, 5),
            ],
            max_steps,
            oracle: |cx, _| oracle::c17(cx),
            nontrivial: nt_c17,
        },
        "C07" => WorldEngine {
            prop: "C07",
            profiles: vec![
                (Profile::Single(Op::Map), 3),
                (Profile::Single(Op::Filter), 3),
                (Profile::Single(Op::Scan), 3),
                (Profile::Single(Op::Take), 6),
                (Profile::Single(Op::Skip), 3),
                (Profile::Dual(Op::Map), 1),
                (Profile::Dual(Op::Filter), 1),
                (Profile::Dual(Op::Scan), 1),
                (Profile::Dual(Op::Take), 2),
                (Profile::Dual(Op::Skip), 1),
            ],
            max_steps,
            oracle: |cx, _| models::c07(cx),
            nontrivial: |cx, _| models::nt_c07(cx),
        },
        "C08" => WorldEngine {
            prop: "C08",
            profiles: vec![(Profile::Single(Op::Merge), 3), (Profile::Dual(Op::Merge), 1)],
            max_steps,
            oracle: |cx, _| models::c08(cx),
            nontrivial: |cx, _| models::nt_c08(cx),
        },
        "C09" => WorldEngine {
            prop: "C09",
            profiles: vec![(Profile::Single(Op::Concat), 3), (Profile::Dual(Op::Concat), 1)],
            max_steps,
            oracle: |cx, _| models::c09(cx),
            nontrivial: |cx, _| models::nt_c09(cx),
        },
        "C10" => WorldEngine {
            prop: "C10",
            profiles: vec![(Profile::Single(Op::Combine), 3), (Profile::Dual(Op::Combine), 1)],
            max_steps,
            oracle: |cx, _| models::c10(cx),
            nontrivial: |cx, _| models::nt_c10(cx),
        },
        "C11" => WorldEngine {
            prop: "C11",
            profiles: vec![(Profile::Single(Op::Flatten), 3), (Profile::Dual(Op::Flatten), 1)],
            max_steps,
            oracle: |cx, _| models::c11(cx),
            nontrivial: |cx, _| models::nt_c11(cx),
        },
        "C12" => WorldEngine {
            prop: "C12",
            profiles: vec![(Profile::Share, 6), (Profile::ShareCross, 3), (Profile::ShareReattach, 2)],
            max_steps,
            oracle: |cx, _| models::c12(cx),
            nontrivial: |cx, _| models::nt_c12(cx),
        },
        "C13" => WorldEngine {
            prop: "C13",
            profiles: vec![
                (Profile::Indep, 10),
                (Profile::ForEachDual, 2),
                (Profile::Dual(Op::Map), 1),
                (Profile::Dual(Op::Scan), 1),
                (Profile::Dual(Op::Take), 1),
                (Profile::Dual(Op::Skip), 1),
                (Profile::Dual(Op::Merge), 1),
                (Profile::Dual(Op::Concat), 1),
                (Profile::Dual(Op::Combine), 1),
                (Profile::Dual(Op::Flatten), 1),
            ],
            max_steps,
            oracle: |cx, _| counts::c13(cx),
            nontrivial: |cx, _| counts::nt_c13(cx),
        },
        "C14" => WorldEngine {
            prop: "C14",
            profiles: vec![(Profile::PullCount, 1)],
            max_steps,
            oracle: |cx, _| counts::c14(cx),
            nontrivial: |cx, _| counts::nt_c14(cx),
        },
        "C15" => WorldEngine {
            prop: "C15",
            profiles: vec![(Profile::FromIterDirect, 1)],
            max_steps,
            oracle: |cx, _| counts::c15(cx),
            nontrivial: |cx, _| counts::nt_c15(cx),
        },
        "C20" => WorldEngine {
            prop: "C20",
            profiles: vec![
                (Profile::AnySingle, 25),
                (Profile::Composed, 35),
                (Profile::Share, 6),
                (Profile::ShareNested, 6),
                (Profile::ForEach, 8),
                (Profile::Indep, 8),
                (Profile::PullCount, 8),
                (Profile::FromIterDirect, 4),
                (Profile::Rogue, 20),
                (Profile::LateAny, 5),
                (Profile::LateShare, 3),
            ],
            max_steps,
            oracle: |_, _| vec![],
            nontrivial: |_, _| true,
        },
        "SELF" => WorldEngine {
            prop: "SELF",
            profiles: vec![(Profile::SelfCheck, 1)],
            max_steps,
            oracle: |cx, _| {
                let mut v = oracle::c01(cx);
                v.extend(oracle::c02(cx));
                v.extend(oracle::c03(cx));
                v.extend(oracle::c04(cx));
                v.extend(oracle::c05(cx));
                v.extend(oracle::c17(cx));
                for f in v.iter_mut() {
                    f.prop = "SELF";
                }
                v
            },
            nontrivial: |cx, _| !cx.insts.is_empty(),
        },
        _ => return None,
    };
    Some(e)
}

pub fn rule_text(prop: &str) -> String {
    let also = match prop {
        "C01" | "C02" | "C03" | "C13" => " One case in eight is instead a virtual-clock scenario over the crate's interval source (see C16), decided by the same monitors.",
        "C17" => " One case in eight is instead a virtual-clock interval scenario (see C16) and one in eight a pull pipeline program (see C06); any panic in them counts.",
        _ => "",
    };
    let gen = "cases are scenarios (operator topology over harness-owned puppet sources and probe sinks + per-peer behaviour tables + a top-level schedule) decoded from proptest-generated byte strings and run against the real crate; distinct = distinct FNV-1a digest of the full nested message history; ";
    let nt = match prop {
        "C01" => "non-trivial = an upstream acted inside a greeting (burst, synchronous Pull reply during the handshake, late greeting) or the sink reacted inside its handshake handler",
        "C02" => "non-trivial = a terminal was delivered to a probe and a later top-level step ran or another upstream instance was still live at that moment",
        "C03" => "non-trivial = a probe disposed (Terminate/Error upward) while at least one upstream instance was live",
        "C04" => "non-trivial = an output became over while an upstream instance was live, or an instance had already ended when a later termination event happened",
        "C05" => "non-trivial = a puppet sent Error while the output it feeds was live",
        "C17" => "non-trivial = the scenario reached a guarded region: talkback used inside a handshake handler, Pull or emission inside a greeting, late greeting",
        "C07" => "non-trivial = at least 2 data were sent and the parameter boundary was crossed (take: n <= #data; skip: 0 < n < #data; filter: both outcomes of the predicate)",
        "C08" => "non-trivial = at least 2 members and at least 2 of them acted, or a late greeter exists",
        "C09" => "non-trivial = at least 2 members and a boundary was crossed, or an error/disposal happened with members left",
        "C10" => "non-trivial = every member produced a value and at least 2 tuples were delivered",
        "C11" => "non-trivial = at least 2 inner subscriptions (a switch or a hand-over), or both the outer and an inner ended (completion-order race)",
        "C12" => "non-trivial = two probes overlapped in time, or the upstream was restarted",
        "C13" => "non-trivial = both subscriptions received data and the schedule switched between them at least twice",
        "C14" => "non-trivial = an item was dropped by filter/skip, or a concat/flatten boundary was crossed (2+ upstream instances), or a reply was deferred",
        "C15" => "non-trivial = a Pull was sent from inside a data handler, or the sink disposed with items left, or completion was reached after 2+ items",
        _ => "non-trivial = at least one instance was subscribed",
    };
    format!("{gen}{nt}.{also}")
}

#[allow(dead_code)]
pub fn dir_is_down(d: Dir) -> bool {
    d == Dir::Down
}
