//! C20: the `tracing` feature is observationally inert. The same generated cases are run in three
//! configurations (feature off; feature on without a subscriber; feature on with a subscriber that
//! formats every field) and the per-case history digests are compared. The digest covers every
//! message and value at every harness actor and every closure call, so a message expression evaluated
//! twice shows up.

use crate::hist::{CallKind, Ev, History};
use crate::multi::{AnyCase, MultiEngine};
use crate::run::*;
use proptest::strategy::{Strategy, ValueTree};
use proptest::test_runner::{Config, RngSeed, TestRunner};
use std::io::Write;
use std::process::{Command, Stdio};

pub fn engine(thorough: bool) -> MultiEngine {
    MultiEngine { prop: "C20", world: crate::props::world_engine("C20", thorough).unwrap(), w_clock: 28, w_pipe: 48 }
}

fn history_of(eng: &MultiEngine, case: &AnyCase) -> History {
    match case {
        AnyCase::World(c) => crate::world::run(&c.sc),
        AnyCase::Clock(c) => crate::clock::run_clock(c).0,
        AnyCase::Pipe(c) => {
            let _ = eng;
            crate::pipeline::run_prog(c, false)
        }
    }
}

pub fn gen_cases(eng: &MultiEngine, seed: u64, shard: usize, n: usize, max_len: usize) -> Vec<AnyCase> {
    use crate::run::Engine;
    let mut runner = TestRunner::new(Config {
        rng_seed: RngSeed::Fixed(seed.wrapping_mul(0x9E37_79B9_7F4A_7C15).wrapping_add(shard as u64 + 1)),
        failure_persistence: None,
        ..Config::default()
    });
    let strat = proptest::collection::vec(proptest::num::u8::ANY, 0..=max_len);
    (0..n).map(|_| eng.decode(&strat.new_tree(&mut runner).unwrap().current())).collect()
}

fn nontrivial(h: &History) -> bool {
    h.log.iter().any(|e| matches!(e, Ev::Call { kind: CallKind::MapF | CallKind::ScanR | CallKind::IterNext | CallKind::FlatMapG, .. }))
}

/// digests (and the non-trivial flag) of all cases, in a fixed order
pub fn digests(thorough: bool, seed: u64, total: usize) -> Vec<(u64, bool)> {
    let shards = 16usize;
    let per = total / shards;
    let max_len = if thorough { 192 } else { 128 };
    let mut out: Vec<Vec<(u64, bool)>> = vec![];
    std::thread::scope(|sc| {
        let hs: Vec<_> = (0..shards)
            .map(|shard| {
                std::thread::Builder::new()
                    .stack_size(64 << 20)
                    .spawn_scoped(sc, move || {
                        let eng = engine(thorough);
                        gen_cases(&eng, seed, shard, per, max_len)
                            .iter()
                            .map(|c| {
                                let h = history_of(&eng, c);
                                (h.digest(), nontrivial(&h))
                            })
                            .collect::<Vec<_>>()
                    })
                    .unwrap()
            })
            .collect();
        for h in hs {
            out.push(h.join().unwrap_or_default());
        }
    });
    out.into_iter().flatten().collect()
}

/// `cbv digest <tier> <total>`: one digest per line on stdout (used by the other build)
pub fn cmd_digest(thorough: bool, seed: u64, total: usize) {
    let d = digests(thorough, seed, total);
    let mut o = std::io::BufWriter::new(std::io::stdout().lock());
    for (x, _) in d {
        let _ = writeln!(o, "{x:016x}");
    }
}

/// `cbv digest-one`: case JSON on stdin, digest on stdout
pub fn cmd_digest_one() {
    let mut s = String::new();
    let _ = std::io::Read::read_to_string(&mut std::io::stdin(), &mut s);
    let case: AnyCase = serde_json::from_str(&s).expect("case json");
    let eng = engine(true);
    println!("{:016x}", history_of(&eng, &case).digest());
}

fn other_bin(verif_dir: &str) -> String {
    std::env::var("CBV_TRACING_BIN").unwrap_or_else(|_| format!("{verif_dir}/harness/target-tracing/release/cbv"))
}

fn remote_digests(bin: &str, tier: &str, seed: u64, total: usize, sub: bool) -> Result<Vec<u64>, String> {
    let out = Command::new(bin)
        .args(["digest", tier, &total.to_string()])
        .env("VERIF_SEED", (seed as i64).to_string())
        .env("CBV_SUBSCRIBER", if sub { "1" } else { "0" })
        .output()
        .map_err(|e| format!("cannot run {bin}: {e}"))?;
    if !out.status.success() {
        return Err(format!("{bin} digest failed: {}", String::from_utf8_lossy(&out.stderr)));
    }
    String::from_utf8_lossy(&out.stdout)
        .lines()
        .map(|l| u64::from_str_radix(l.trim(), 16).map_err(|e| e.to_string()))
        .collect()
}

fn remote_one(bin: &str, case: &AnyCase, sub: bool) -> Option<u64> {
    let mut ch = Command::new(bin)
        .arg("digest-one")
        .env("CBV_SUBSCRIBER", if sub { "1" } else { "0" })
        .stdin(Stdio::piped())
        .stdout(Stdio::piped())
        .stderr(Stdio::null())
        .spawn()
        .ok()?;
    ch.stdin.take()?.write_all(serde_json::to_string(case).ok()?.as_bytes()).ok()?;
    let out = ch.wait_with_output().ok()?;
    u64::from_str_radix(String::from_utf8_lossy(&out.stdout).trim(), 16).ok()
}

/// true if the case behaves differently in some configuration
pub fn differs(verif_dir: &str, case: &AnyCase) -> Option<String> {
    let eng = engine(true);
    let here = history_of(&eng, case).digest();
    let bin = other_bin(verif_dir);
    for sub in [false, true] {
        match remote_one(&bin, case, sub) {
            Some(d) if d == here => {}
            Some(_) => return Some(format!("tracing feature on, subscriber {}", if sub { "installed" } else { "absent" })),
            None => return Some("the tracing build crashed on this case".to_string()),
        }
    }
    None
}

pub fn run_check(verif_dir: &str, out_dir: &str, tier: &str, seed: u64) -> i32 {
    use crate::run::Engine;
    let thorough = tier == "thorough";
    let t = Timer::start();
    let scale: f64 = std::env::var("CBV_SCALE").ok().and_then(|s| s.parse().ok()).unwrap_or(1.0);
    let total = (((if thorough { 1_600_000.0 } else { 96_000.0 }) * scale) as usize / 16).max(1) * 16;
    let bin = other_bin(verif_dir);
    if !std::path::Path::new(&bin).exists() {
        eprintln!("the tracing build of the harness is missing ({bin}); run ./check build");
        return 2;
    }
    let rule = "the same proptest-generated cases (world scenarios of every profile, pull pipeline programs, virtual-clock interval scenarios; same seed) are run in three configurations: crate feature `tracing` off, on without a subscriber, on with a subscriber that formats every field; one FNV-1a digest of the full history (messages, values, nesting, closure calls, Iterator::next calls, executor events) per case and configuration; distinct = distinct digest; non-trivial = the history contains a call of a side-effecting message expression (map f, scan reducer, flat-map g, Iterator::next)".to_string();
    // replay tier
    let eng = engine(thorough);
    let mut stats = Stats::default();
    let dir = format!("{verif_dir}/regressions");
    let mut files: Vec<_> = std::fs::read_dir(&dir).map(|rd| rd.filter_map(|e| e.ok()).map(|e| e.path()).collect()).unwrap_or_default();
    files.sort();
    for p in files {
        let Ok(text) = std::fs::read_to_string(&p) else { continue };
        let Ok(r) = serde_json::from_str::<Replay>(&text) else { continue };
        if r.property != "C20" {
            continue;
        }
        let Ok(case) = serde_json::from_value::<AnyCase>(r.case.clone()) else { continue };
        if let Some(why) = differs(verif_dir, &case) {
            println!("regression {} differs again: {why}", p.display());
            println!("VIOLATION property=C20 replay={}", p.display());
            return 1;
        }
    }
    let here = digests(thorough, seed, total);
    let mut violation: Option<(usize, String)> = None;
    for sub in [false, true] {
        match remote_digests(&bin, tier, seed, total, sub) {
            Err(e) => {
                eprintln!("inconclusive: {e}");
                return 2;
            }
            Ok(d) => {
                if d.len() != here.len() {
                    eprintln!("inconclusive: the tracing build produced {} digests, expected {}", d.len(), here.len());
                    return 2;
                }
                if let Some(k) = (0..d.len()).find(|k| d[*k] != here[*k].0) {
                    violation = Some((k, format!("tracing feature on, subscriber {}", if sub { "installed" } else { "absent" })));
                    break;
                }
            }
        }
    }
    stats.evaluations = (here.len() * 3) as u64;
    for (d, nt) in &here {
        if *nt {
            stats.nontrivial += 1;
            stats.digests.insert(*d);
        }
    }
    // samples: the first few non-trivial cases
    let sample_cases = gen_cases(&eng, seed, 0, 40, if thorough { 192 } else { 128 });
    for c in sample_cases.iter() {
        if stats.samples.len() >= 3 {
            break;
        }
        let h = history_of(&eng, c);
        if nontrivial(&h) {
            stats.samples.push(serde_json::json!({"case": serde_json::to_value(c).unwrap(), "history": h.render().chars().take(700).collect::<String>(), "digest": format!("{:016x}", h.digest())}));
        }
    }
    let mut code = 0;
    let mut extra = serde_json::json!({"configurations": ["tracing off", "tracing on, no subscriber", "tracing on, subscriber installed"], "cases_per_configuration": here.len()});
    if let Some((k, why)) = violation {
        // regenerate the case, shrink under "digests differ", write the replay
        let per = total / 16;
        let (shard, idx) = (k / per, k % per);
        let case = gen_cases(&eng, seed, shard, idx + 1, if thorough { 192 } else { 128 }).pop().unwrap();
        let small = eng.minimise(&case, &mut |c| differs(verif_dir, c).is_some());
        let why2 = differs(verif_dir, &small).unwrap_or(why);
        let f = crate::oracle::finding("C20", "C20:digest-differs", format!("the history differs with {why2}"), 0);
        let v = Violation { case: small, finding: f };
        let path = write_replay(out_dir, &eng, "C20", &v);
        println!("C20:digest-differs: {}", v.finding.detail);
        println!("history (tracing off): {}", eng.render(&v.case));
        println!("VIOLATION property=C20 replay={path}");
        extra["violation_replay"] = serde_json::json!(path);
        code = 1;
    }
    write_evidence(
        out_dir,
        EvidenceIn {
            prop: "C20",
            tier,
            seed,
            rule,
            stats: &stats,
            wall_s: t.secs(),
            violations: code as u64,
            extra,
            assumptions: vec![
                "both harness builds generate the identical case sequence from the seed (same proptest, same decoder)".into(),
                "Clone counts of values are not part of the digest (the statement does not promise them)".into(),
            ],
        },
    );
    println!("C20 {tier}: {} cases x 3 configurations, {} non-trivial ({} distinct), {:.1}s", here.len(), stats.nontrivial, stats.digests.len(), t.secs());
    code
}

pub fn replay(verif_dir: &str, path: &str, case: AnyCase) -> i32 {
    match differs(verif_dir, &case) {
        Some(why) => {
            println!("finding: C20:digest-differs the history differs with {why}");
            println!("VIOLATION property=C20 replay={path}");
            1
        }
        None => {
            println!("replay: no unlisted violation of C20");
            0
        }
    }
}

// ------------------------------------------------------------------ a subscriber that evaluates every field

#[cfg(feature = "tracing")]
pub mod sub {
    use std::fmt::Write;
    use std::sync::atomic::{AtomicU64, Ordering};
    use tracing::field::{Field, Visit};
    use tracing::span::{Attributes, Id, Record};
    use tracing::{Event, Metadata, Subscriber};

    pub struct FormatAll {
        next: AtomicU64,
        sink: AtomicU64,
    }

    struct V<'a>(&'a mut String);
    impl<'a> Visit for V<'a> {
        fn record_debug(&mut self, field: &Field, value: &dyn std::fmt::Debug) {
            let _ = write!(self.0, "{}={:?};", field.name(), value);
        }
    }

    impl FormatAll {
        pub fn new() -> Self {
            FormatAll { next: AtomicU64::new(1), sink: AtomicU64::new(0) }
        }
        fn eat(&self, s: &str) {
            self.sink.fetch_add(s.len() as u64, Ordering::Relaxed);
        }
    }

    impl Subscriber for FormatAll {
        fn enabled(&self, _m: &Metadata<'_>) -> bool {
            true
        }
        fn new_span(&self, a: &Attributes<'_>) -> Id {
            let mut s = String::new();
            a.record(&mut V(&mut s));
            self.eat(&s);
            Id::from_u64(self.next.fetch_add(1, Ordering::Relaxed))
        }
        fn record(&self, _span: &Id, values: &Record<'_>) {
            let mut s = String::new();
            values.record(&mut V(&mut s));
            self.eat(&s);
        }
        fn record_follows_from(&self, _span: &Id, _follows: &Id) {}
        fn event(&self, e: &Event<'_>) {
            let mut s = String::new();
            e.record(&mut V(&mut s));
            self.eat(&s);
        }
        fn enter(&self, _span: &Id) {}
        fn exit(&self, _span: &Id) {}
    }

    pub fn install() {
        let _ = tracing::subscriber::set_global_default(FormatAll::new());
    }
}
