//! Harness library: engines, oracles and the campaign driver (the `cbv` binary and the fuzz targets use it).

pub mod c20;
pub mod clock;
pub mod counts;
pub mod hist;
pub mod models;
pub mod multi;
pub mod oracle;
pub mod pipeline;
pub mod props;
pub mod run;
pub mod sched;
pub mod schedcheck;
pub mod scn;
pub mod stackprobe;
pub mod world;
pub mod fuzzglue;
