mod counts;
mod hist;
mod models;
mod oracle;
mod props;
mod run;
mod scn;
mod world;

use run::*;
use std::collections::BTreeMap;

fn verif_dir() -> String {
    std::env::var("VERIF_DIR").unwrap_or_else(|_| "/verif".to_string())
}

fn out_dir() -> String {
    std::env::var("VERIF_OUT").unwrap_or_else(|_| verif_dir())
}

fn seed() -> u64 {
    std::env::var("VERIF_SEED").ok().and_then(|s| s.trim().parse::<i64>().ok()).map(|v| v as u64).unwrap_or(0)
}

struct Budget {
    cases: u64,
    max_len: usize,
}

fn budget(prop: &str, thorough: bool) -> Budget {
    let scale: f64 = std::env::var("CBV_SCALE").ok().and_then(|s| s.parse().ok()).unwrap_or(1.0);
    let (q, t) = match prop {
        _ => (160_000u64, 4_000_000u64),
    };
    let cases = ((if thorough { t } else { q }) as f64 * scale) as u64;
    Budget { cases: cases.max(16), max_len: if thorough { 224 } else { 128 } }
}

/// Runs the replay tier for `prop`; returns Some(path) of a regression that fails again.
fn regressions<E: Engine>(eng: &E, prop: &str, known: &KnownFile) -> Result<Vec<String>, String> {
    let dir = format!("{}/regressions", verif_dir());
    let mut known_lines = vec![];
    let mut files: Vec<_> = match std::fs::read_dir(&dir) {
        Ok(rd) => rd.filter_map(|e| e.ok()).map(|e| e.path()).collect(),
        Err(_) => vec![],
    };
    files.sort();
    for p in files {
        if p.extension().map_or(true, |e| e != "json") {
            continue;
        }
        let Ok(text) = std::fs::read_to_string(&p) else { continue };
        let Ok(r) = serde_json::from_str::<Replay>(&text) else {
            eprintln!("harness error: cannot parse regression {}", p.display());
            std::process::exit(2);
        };
        if r.property != prop || r.engine != eng.name() {
            continue;
        }
        let Ok(case) = serde_json::from_value::<E::Case>(r.case.clone()) else {
            eprintln!("harness error: regression {} does not decode as a {} case", p.display(), eng.name());
            std::process::exit(2);
        };
        let o = eng.eval(&case);
        if !o.harness_errors.is_empty() {
            eprintln!("harness error in regression {}: {:?}", p.display(), o.harness_errors);
            std::process::exit(2);
        }
        let mine: Vec<_> = o.findings.iter().filter(|f| f.prop == prop).collect();
        if let Some(id) = r.expect.strip_prefix("known:") {
            if let Some(k) = known.findings.iter().find(|k| k.id == id) {
                if mine.iter().any(|f| k.sigs.contains(&f.sig)) {
                    known_lines.push(format!("KNOWN-FINDING: property={} {} ({})", prop, k.what, k.id));
                }
            }
            if let Some(f) = mine.iter().find(|f| known.matches(f).is_none()) {
                println!("regression {} : {} {}", p.display(), f.sig, f.detail);
                return Err(p.display().to_string());
            }
        } else if let Some(f) = mine.iter().find(|f| known.matches(f).is_none()) {
            println!("regression {} fails again: {} {}", p.display(), f.sig, f.detail);
            return Err(p.display().to_string());
        }
    }
    known_lines.sort();
    known_lines.dedup();
    Ok(known_lines)
}

fn self_check(known: &KnownFile) {
    let eng = props::world_engine("SELF", false).unwrap();
    let cfg = CampaignCfg { prop: "SELF", cases: 4000, max_len: 96, seed: seed(), shards: 4 };
    let (stats, v) = campaign(&eng, &cfg, &KnownFile::default());
    let _ = known;
    if let Some(v) = v {
        eprintln!(
            "harness self-check failed (puppet -> probe, no crate code): {} {}\n{}",
            v.finding.sig,
            v.finding.detail,
            eng.render(&v.case)
        );
        std::process::exit(2);
    }
    if !stats.harness_errors.is_empty() {
        eprintln!("harness self-check: harness errors {:?}", stats.harness_errors);
        std::process::exit(2);
    }
}

fn run_check<E: Engine>(eng: &E, prop: &'static str, tier: &str, rule: String, assumptions: Vec<String>) -> i32 {
    let thorough = tier == "thorough";
    let known = load_known(&verif_dir());
    let t = Timer::start();
    self_check(&known);
    let b = budget(prop, thorough);
    let known_lines = match regressions(eng, prop, &known) {
        Ok(l) => l,
        Err(path) => {
            let stats = Stats::default();
            write_evidence(
                &out_dir(),
                EvidenceIn {
                    prop,
                    tier,
                    seed: seed(),
                    rule,
                    stats: &stats,
                    wall_s: t.secs(),
                    violations: 1,
                    extra: serde_json::json!({"failed_regression": path}),
                    assumptions,
                },
            );
            println!("VIOLATION property={prop} replay={path}");
            return 1;
        }
    };
    for l in &known_lines {
        println!("{l}");
    }
    let cfg = CampaignCfg { prop, cases: b.cases, max_len: b.max_len, seed: seed(), shards: 16 };
    let (stats, v) = campaign(eng, &cfg, &known);
    if !stats.harness_errors.is_empty() {
        eprintln!("harness errors (inconclusive): {:?}", &stats.harness_errors[..stats.harness_errors.len().min(5)]);
        return 2;
    }
    let mut code = 0;
    let mut extra = BTreeMap::new();
    if let Some(v) = &v {
        let path = write_replay(&out_dir(), eng, prop, v);
        println!("{}: {}", v.finding.sig, v.finding.detail);
        println!("history: {}", eng.render(&v.case));
        println!("VIOLATION property={prop} replay={path}");
        extra.insert("violation_sig".to_string(), serde_json::json!(v.finding.sig));
        extra.insert("violation_replay".to_string(), serde_json::json!(path));
        code = 1;
    }
    extra.insert("known_finding_lines".into(), serde_json::json!(known_lines));
    write_evidence(
        &out_dir(),
        EvidenceIn {
            prop,
            tier,
            seed: seed(),
            rule,
            stats: &stats,
            wall_s: t.secs(),
            violations: if v.is_some() { 1 } else { 0 },
            extra: serde_json::to_value(extra).unwrap(),
            assumptions,
        },
    );
    println!(
        "{prop} {tier}: {} cases, {} non-trivial ({} distinct), known-finding hits {:?}, {:.1}s",
        stats.evaluations,
        stats.nontrivial,
        stats.digests.len(),
        stats.known_hits,
        t.secs()
    );
    code
}

fn world_assumptions() -> Vec<String> {
    vec![
        "harness-owned peers are spec-conformant by construction (every action passes a guard at the moment it begins); checked by the puppet->probe self-check in every run".into(),
        "exploration is bounded: arity <= 4 (combine <= 3), <= 6 items per puppet, tree depth <= 3, schedule length bounded by the tier".into(),
        "late greeters are generated only as direct members of a root merge!".into(),
    ]
}

fn replay_file(path: &str) -> i32 {
    let text = std::fs::read_to_string(path).unwrap_or_else(|e| {
        eprintln!("cannot read {path}: {e}");
        std::process::exit(2)
    });
    let r: Replay = serde_json::from_str(&text).unwrap_or_else(|e| {
        eprintln!("cannot parse {path}: {e}");
        std::process::exit(2)
    });
    let known = load_known(&verif_dir());
    match r.engine.as_str() {
        "world" => {
            let prop: &'static str = Box::leak(r.property.clone().into_boxed_str());
            let eng = props::world_engine(prop, true).unwrap_or_else(|| {
                eprintln!("no world engine for {prop}");
                std::process::exit(2)
            });
            let case: props::WCase = serde_json::from_value(r.case).unwrap();
            let o = eng.eval(&case);
            println!("history: {}", eng.render(&case));
            let mut bad = false;
            for f in o.findings.iter().filter(|f| f.prop == prop) {
                let k = known.matches(f);
                println!("finding: {} {} {}", f.sig, f.detail, k.map(|k| format!("[known {}]", k.id)).unwrap_or_default());
                if k.is_none() {
                    bad = true;
                }
            }
            if bad {
                println!("VIOLATION property={prop} replay={path}");
                1
            } else {
                println!("replay: no unlisted violation of {prop}");
                0
            }
        }
        other => {
            eprintln!("unknown engine {other}");
            2
        }
    }
}

/// Development aid: histogram of finding signatures over random cases (does not stop at the first).
fn survey<E: Engine>(eng: &E, prop: &str, cases: u64) {
    use proptest::strategy::{Strategy, ValueTree};
    use proptest::test_runner::{Config, RngSeed, TestRunner};
    let mut runner = TestRunner::new(Config { rng_seed: RngSeed::Fixed(seed() + 77), failure_persistence: None, ..Config::default() });
    let strat = proptest::collection::vec(proptest::num::u8::ANY, 0..=160usize);
    let known = load_known(&verif_dir());
    let mut hist: BTreeMap<String, (u64, String)> = BTreeMap::new();
    for _ in 0..cases {
        let bytes = strat.new_tree(&mut runner).unwrap().current();
        let case = eng.decode(&bytes);
        let o = eng.eval(&case);
        for f in o.findings.iter().filter(|f| f.prop == prop) {
            let key = format!("{}{}", f.sig, known.matches(f).map(|k| format!(" [known {}]", k.id)).unwrap_or_default());
            let e = hist.entry(key).or_insert((0, String::new()));
            e.0 += 1;
            if e.1.is_empty() {
                e.1 = format!("{}\n      {}\n      {}", f.detail, eng.render(&case), serde_json::to_string(&case).unwrap());
            }
        }
    }
    for (k, (n, ex)) in hist {
        println!("{n:8}  {k}\n      {ex}");
    }
}

/// Development aid: find a case whose finding signature contains `needle`, minimise it, save it.
fn hunt<E: Engine>(eng: &E, prop: &str, needle: &str, cases: u64, out: &str) -> i32 {
    use proptest::strategy::{Strategy, ValueTree};
    use proptest::test_runner::{Config, RngSeed, TestRunner};
    let mut runner = TestRunner::new(Config { rng_seed: RngSeed::Fixed(seed() + 99), failure_persistence: None, ..Config::default() });
    let strat = proptest::collection::vec(proptest::num::u8::ANY, 0..=160usize);
    for _ in 0..cases {
        let bytes = strat.new_tree(&mut runner).unwrap().current();
        let case = eng.decode(&bytes);
        let o = eng.eval(&case);
        if let Some(f) = o.findings.iter().find(|f| f.prop == prop && f.sig.contains(needle)) {
            let sig = f.sig.clone();
            let mut pred = |c: &E::Case| eng.eval(c).findings.iter().any(|f| f.prop == prop && f.sig == sig);
            let small = eng.minimise(&case, &mut pred);
            let o = eng.eval(&small);
            let f = o.findings.iter().find(|f| f.prop == prop && f.sig == sig).unwrap().clone();
            let r = Replay {
                property: prop.to_string(),
                engine: eng.name().to_string(),
                expect: "pass".into(),
                sig: f.sig.clone(),
                detail: f.detail.clone(),
                case: serde_json::to_value(&small).unwrap(),
                history: eng.render(&small),
            };
            std::fs::write(out, serde_json::to_string_pretty(&r).unwrap()).unwrap();
            println!("{} {}\n{}\nwritten to {out}", f.sig, f.detail, eng.render(&small));
            return 0;
        }
    }
    println!("not found");
    1
}

fn main() {
    let args: Vec<String> = std::env::args().collect();
    let code = match args.get(1).map(|s| s.as_str()) {
        Some("check") => {
            let prop = args.get(2).cloned().unwrap_or_default();
            let tier = args.get(3).cloned().unwrap_or_else(|| std::env::var("VERIF_TIER").unwrap_or("quick".into()));
            let prop: &'static str = Box::leak(prop.into_boxed_str());
            if let Some(eng) = props::world_engine(prop, tier == "thorough") {
                run_check(&eng, prop, &tier, props::rule_text(prop), world_assumptions())
            } else {
                eprintln!("unknown property {prop}");
                2
            }
        }
        Some("survey") => {
            let prop: &'static str = Box::leak(args.get(2).cloned().unwrap_or_default().into_boxed_str());
            let n = args.get(3).and_then(|s| s.parse().ok()).unwrap_or(100_000);
            if let Some(eng) = props::world_engine(prop, false) {
                survey(&eng, prop, n);
            }
            0
        }
        Some("hunt") => {
            let prop: &'static str = Box::leak(args.get(2).cloned().unwrap_or_default().into_boxed_str());
            let needle = args.get(3).cloned().unwrap_or_default();
            let out = args.get(4).cloned().unwrap_or("/tmp/hunt.json".into());
            let n = args.get(5).and_then(|s| s.parse().ok()).unwrap_or(2_000_000);
            match props::world_engine(prop, false) {
                Some(eng) => hunt(&eng, prop, &needle, n, &out),
                None => 2,
            }
        }
        Some("replay") => replay_file(args.get(2).map(|s| s.as_str()).unwrap_or("")),
        Some("selfcheck") => {
            self_check(&KnownFile::default());
            println!("self-check ok");
            0
        }
        _ => {
            eprintln!("usage: cbv check <Cxx> [quick|thorough] | replay <file> | selfcheck");
            2
        }
    };
    std::process::exit(code);
}
