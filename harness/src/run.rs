//! Campaign driver: sharded proptest runs over byte-string choice sequences, known-finding
//! matching, structural minimisation, replay files and evidence.

use crate::oracle::Finding;
use proptest::strategy::Strategy;
use proptest::test_runner::{Config, RngSeed, TestCaseError, TestError, TestRunner};
use serde::{Deserialize, Serialize};
use std::cell::RefCell;
use std::collections::{BTreeMap, HashSet};
use std::time::Instant;

pub struct Outcome {
    pub findings: Vec<Finding>,
    pub nontrivial: bool,
    pub digest: u64,
    pub classes: Vec<String>,
    pub skipped_by_guard: u64,
    pub harness_errors: Vec<String>,
}

pub trait Engine: Sync {
    type Case: Clone + Serialize + for<'de> Deserialize<'de> + Send + std::fmt::Debug;
    fn name(&self) -> &'static str;
    fn decode(&self, bytes: &[u8]) -> Self::Case;
    fn eval(&self, case: &Self::Case) -> Outcome;
    /// human-readable abbreviated history for samples / replays
    fn render(&self, case: &Self::Case) -> String;
    fn minimise(&self, case: &Self::Case, still_fails: &mut dyn FnMut(&Self::Case) -> bool) -> Self::Case;
}

#[derive(Clone, Debug, Serialize, Deserialize)]
pub struct KnownFinding {
    pub id: String,
    pub property: String,
    pub sigs: Vec<String>,
    pub what: String,
    pub witness: String,
}

#[derive(Clone, Debug, Default, Serialize, Deserialize)]
pub struct KnownFile {
    pub findings: Vec<KnownFinding>,
    pub fixed: Vec<String>,
}

pub fn load_known(verif_dir: &str) -> KnownFile {
    let p = format!("{verif_dir}/known_findings.json");
    match std::fs::read_to_string(&p) {
        Ok(s) => serde_json::from_str(&s).unwrap_or_else(|e| {
            eprintln!("harness error: cannot parse {p}: {e}");
            std::process::exit(2)
        }),
        Err(_) => KnownFile::default(),
    }
}

impl KnownFile {
    pub fn matches(&self, f: &Finding) -> Option<&KnownFinding> {
        self.findings.iter().find(|k| k.property == f.prop && k.sigs.iter().any(|s| s == &f.sig))
    }
}

#[derive(Default, Serialize, Deserialize)]
pub struct Stats {
    pub evaluations: u64,
    pub nontrivial: u64,
    pub digests: HashSet<u64>,
    pub classes: BTreeMap<String, u64>,
    pub skipped_by_guard: u64,
    pub known_hits: BTreeMap<String, u64>,
    pub samples: Vec<serde_json::Value>,
    pub harness_errors: Vec<String>,
    #[serde(default)]
    pub frozen: bool,
    /// the first failing input of a shard, before shrinking (fallback when the shrunk input does not fail again)
    #[serde(skip)]
    pub first_failure: Option<Vec<u8>>,
}

impl Stats {
    pub fn merge(&mut self, o: Stats) {
        self.evaluations += o.evaluations;
        self.nontrivial += o.nontrivial;
        self.digests.extend(o.digests);
        for (k, v) in o.classes {
            *self.classes.entry(k).or_default() += v;
        }
        self.skipped_by_guard += o.skipped_by_guard;
        for (k, v) in o.known_hits {
            *self.known_hits.entry(k).or_default() += v;
        }
        for s in o.samples {
            if self.samples.len() < 5 {
                self.samples.push(s);
            }
        }
        self.harness_errors.extend(o.harness_errors);
    }
}

#[derive(Serialize, Deserialize)]
pub struct ChunkResult {
    pub stats: Stats,
    pub violation: Option<(serde_json::Value, String, String)>,
}

pub struct Violation<C> {
    pub case: C,
    pub finding: Finding,
}

pub struct CampaignCfg {
    pub prop: &'static str,
    pub cases: u64,
    pub max_len: usize,
    pub seed: u64,
    pub shards: usize,
}

/// Findings of `prop` in `o` that no known finding explains.
fn unlisted<'a>(prop: &str, o: &'a Outcome, known: &KnownFile, hits: &mut BTreeMap<String, u64>) -> Vec<&'a Finding> {
    let mut v = vec![];
    for f in &o.findings {
        if f.prop != prop {
            continue;
        }
        if let Some(k) = known.matches(f) {
            *hits.entry(k.id.clone()).or_default() += 1;
        } else {
            v.push(f);
        }
    }
    v
}

// ------------------------------------------------------------------ watchdog (hang => exit 2, never a violation)

static CASE_STARTED_MS: [std::sync::atomic::AtomicU64; 64] = [const { std::sync::atomic::AtomicU64::new(0) }; 64];
/// the case in flight per slot, as serialised JSON (engine, property, case), so that a hang can be reported with the input
/// that caused it; written only when the slot's case changes, read only by the watchdog
static CASE_IN_FLIGHT: [std::sync::Mutex<Option<(String, String, Vec<u8>)>>; 64] = [const { std::sync::Mutex::new(None) }; 64];

fn now_ms() -> u64 {
    static T0: std::sync::OnceLock<Instant> = std::sync::OnceLock::new();
    T0.get_or_init(Instant::now).elapsed().as_millis() as u64 + 1
}

pub fn start_watchdog() {
    static ONCE: std::sync::Once = std::sync::Once::new();
    ONCE.call_once(|| {
        let limit_ms: u64 =
            std::env::var("CBV_WATCHDOG_S").ok().and_then(|s| s.parse().ok()).unwrap_or(120u64) * 1000;
        std::thread::spawn(move || loop {
            std::thread::sleep(std::time::Duration::from_secs(2));
            let now = now_ms();
            for slot in CASE_STARTED_MS.iter() {
                let t = slot.load(std::sync::atomic::Ordering::Relaxed);
                if t != 0 && now.saturating_sub(t) > limit_ms {
                    eprintln!("watchdog: a single case has been running for more than {} s; inconclusive", limit_ms / 1000);
                    let slot_ix = CASE_STARTED_MS.iter().position(|s| std::ptr::eq(s, slot)).unwrap_or(0);
                    let mut where_ = String::new();
                    if let Ok(g) = CASE_IN_FLIGHT[slot_ix].try_lock() {
                        if let Some((prop, engine, bytes)) = g.as_ref() {
                            let dir = format!("{}/replays", std::env::var("VERIF_OUT").unwrap_or_else(|_| ".".into()));
                            let _ = std::fs::create_dir_all(&dir);
                            let mut h = crate::hist::Fnv::new();
                            h.bytes(bytes);
                            let path = format!("{dir}/{prop}-stuck-{:016x}.json", h.0);
                            let hex: String = bytes.iter().map(|b| format!("{b:02x}")).collect();
                            let doc = serde_json::json!({"property": prop, "engine": engine, "stuck_input_hex": hex,
                                "note": "the case decoded from these bytes did not return within the watchdog limit; `cbv decode <property> <this file>` prints it"});
                            if std::fs::write(&path, serde_json::to_string_pretty(&doc).unwrap()).is_ok() {
                                where_ = format!(" property={prop} stuck_input={path}");
                            }
                        }
                    }
                    println!("INCONCLUSIVE: watchdog fired (a case did not terminate){where_}");
                    std::process::exit(2);
                }
            }
        });
    });
}

pub fn case_begin(slot: usize) {
    CASE_STARTED_MS[slot % 64].store(now_ms(), std::sync::atomic::Ordering::Relaxed);
}

pub fn case_begin_with(slot: usize, prop: &str, engine: &str, bytes: &[u8]) {
    if let Ok(mut g) = CASE_IN_FLIGHT[slot % 64].lock() {
        match g.as_mut() {
            Some((p, e, b)) => {
                if p != prop || e != engine {
                    *p = prop.to_string();
                    *e = engine.to_string();
                }
                b.clear();
                b.extend_from_slice(bytes);
            }
            None => *g = Some((prop.to_string(), engine.to_string(), bytes.to_vec())),
        }
    }
    case_begin(slot);
}

pub fn case_end(slot: usize) {
    CASE_STARTED_MS[slot % 64].store(0, std::sync::atomic::Ordering::Relaxed);
}

pub fn run_shard<E: Engine>(
    eng: &E,
    cfg: &CampaignCfg,
    shard: usize,
    known: &KnownFile,
) -> (Stats, Option<Violation<E::Case>>) {
    let cases = cfg.cases / cfg.shards as u64 + if (shard as u64) < cfg.cases % cfg.shards as u64 { 1 } else { 0 };
    let config = Config {
        cases: cases as u32,
        rng_seed: RngSeed::Fixed(cfg.seed.wrapping_mul(0x9E37_79B9_7F4A_7C15).wrapping_add(shard as u64 + 1)),
        failure_persistence: None,
        max_shrink_iters: 2000,
        max_shrink_time: 0,
        verbose: 0,
        ..Config::default()
    };
    let mut runner = TestRunner::new(config);
    let stats = RefCell::new(Stats::default());
    // short and long inputs both matter: most of the mass near max_len, some very short
    let max_len = cfg.max_len;
    let strat = (0usize..4).prop_flat_map(move |k| {
        let hi = match k {
            0 => max_len / 4,
            1 => max_len / 2,
            _ => max_len,
        };
        proptest::collection::vec(proptest::num::u8::ANY, 0..=hi.max(1))
    });
    let prop = cfg.prop;
    let result = runner.run(&strat, |bytes| {
        let case = eng.decode(&bytes);
        case_begin_with(shard, prop, eng.name(), &bytes);
        let o = eng.eval(&case);
        case_end(shard);
        let mut st = stats.borrow_mut();
        let mut hits = BTreeMap::new();
        let bad: Vec<&Finding> = unlisted(prop, &o, known, &mut hits);
        if !st.frozen {
            st.evaluations += 1;
            st.skipped_by_guard += o.skipped_by_guard;
            for (k, v) in hits {
                *st.known_hits.entry(k).or_default() += v;
            }
            for c in &o.classes {
                *st.classes.entry(c.clone()).or_default() += 1;
            }
            if !o.harness_errors.is_empty() && st.harness_errors.len() < 5 {
                st.harness_errors.extend(o.harness_errors.iter().cloned());
            }
            if o.nontrivial {
                st.nontrivial += 1;
                let fresh = st.digests.insert(o.digest);
                if fresh && st.samples.len() < 3 && bad.is_empty() {
                    let sample = serde_json::json!({
                        "case": serde_json::to_value(&case).unwrap_or(serde_json::Value::Null),
                        "history": eng.render(&case),
                    });
                    st.samples.push(sample);
                }
            }
        }
        if let Some(f) = bad.first() {
            if !st.frozen {
                st.first_failure = Some(bytes.clone());
            }
            st.frozen = true;
            return Err(TestCaseError::fail(f.sig.clone()));
        }
        Ok(())
    });
    let stats = stats.into_inner();
    match result {
        Ok(()) => (stats, None),
        Err(TestError::Fail(_, bytes)) => {
            // re-judge the shrunk input; code whose behaviour depends on the wall clock may not fail again on the
            // same input, so try a few times and fall back to the first failing input of the shard
            let mut candidates: Vec<Vec<u8>> = vec![bytes];
            if let Some(first) = stats.first_failure.clone() {
                candidates.push(first);
            }
            for cand in candidates {
                for _ in 0..3 {
                    let case = eng.decode(&cand);
                    let o = eng.eval(&case);
                    let mut hits = BTreeMap::new();
                    let f = unlisted(prop, &o, known, &mut hits).first().cloned().cloned();
                    if let Some(finding) = f {
                        return (stats, Some(Violation { case, finding }));
                    }
                }
            }
            let mut stats = stats;
            stats.harness_errors.push("a failure did not reproduce from its shrunk input nor from the original one (non-determinism)".into());
            (stats, None)
        }
        Err(TestError::Abort(r)) => {
            let mut stats = stats;
            stats.harness_errors.push(format!("proptest aborted: {r}"));
            (stats, None)
        }
    }
}

pub fn campaign<E: Engine>(
    eng: &E,
    cfg: &CampaignCfg,
    known: &KnownFile,
) -> (Stats, Option<Violation<E::Case>>) {
    start_watchdog();
    let mut total = Stats::default();
    let mut first: Option<Violation<E::Case>> = None;
    let results: Vec<(Stats, Option<Violation<E::Case>>)> = std::thread::scope(|sc| {
        let hs: Vec<_> = (0..cfg.shards)
            .map(|shard| {
                std::thread::Builder::new()
                    .stack_size(64 << 20)
                    .spawn_scoped(sc, move || run_shard(eng, cfg, shard, known))
                    .unwrap()
            })
            .collect();
        hs.into_iter()
            .map(|h| match h.join() {
                Ok(r) => r,
                Err(_) => {
                    let mut s = Stats::default();
                    s.harness_errors.push("a shard thread panicked outside catch_unwind".into());
                    (s, None)
                }
            })
            .collect()
    });
    for (s, v) in results {
        total.merge(s);
        if first.is_none() {
            first = v;
        }
    }
    let first = first.map(|v| minimise_violation(eng, cfg.prop, known, v));
    (total, first)
}

/// structural minimisation under "an unlisted finding with the same signature is still produced"
pub fn minimise_violation<E: Engine>(eng: &E, prop: &str, known: &KnownFile, v: Violation<E::Case>) -> Violation<E::Case> {
    let sig = v.finding.sig.clone();
    let mut pred = |c: &E::Case| {
        let o = eng.eval(c);
        let mut hits = BTreeMap::new();
        unlisted(prop, &o, known, &mut hits).iter().any(|f| f.sig == sig)
    };
    let case = eng.minimise(&v.case, &mut pred);
    let o = eng.eval(&case);
    let mut hits = BTreeMap::new();
    let finding = unlisted(prop, &o, known, &mut hits).into_iter().find(|f| f.sig == sig).cloned().unwrap_or(v.finding);
    Violation { case, finding }
}

/// first unlisted finding of `prop` for one case
pub fn first_unlisted<E: Engine>(eng: &E, prop: &str, known: &KnownFile, case: &E::Case) -> Option<Finding> {
    let o = eng.eval(case);
    let mut hits = BTreeMap::new();
    unlisted(prop, &o, known, &mut hits).first().cloned().cloned()
}

// ------------------------------------------------------------------ replay files

#[derive(Clone, Debug, Serialize, Deserialize)]
pub struct Replay {
    pub property: String,
    pub engine: String,
    /// "pass" (regression: must not violate) or "known:<id>" (witness of a listed finding)
    pub expect: String,
    pub sig: String,
    pub detail: String,
    pub case: serde_json::Value,
    #[serde(default)]
    pub history: String,
}

pub fn write_replay<E: Engine>(verif_dir: &str, eng: &E, prop: &str, v: &Violation<E::Case>) -> String {
    let dir = format!("{verif_dir}/replays");
    let _ = std::fs::create_dir_all(&dir);
    let case = serde_json::to_value(&v.case).unwrap();
    let mut h = crate::hist::Fnv::new();
    h.str(&case.to_string());
    let path = format!("{dir}/{prop}-{:016x}.json", h.0);
    let r = Replay {
        property: prop.to_string(),
        engine: eng.name().to_string(),
        expect: "pass".into(),
        sig: v.finding.sig.clone(),
        detail: v.finding.detail.clone(),
        case,
        history: eng.render(&v.case),
    };
    std::fs::write(&path, serde_json::to_string_pretty(&r).unwrap()).unwrap();
    path
}

// ------------------------------------------------------------------ evidence

pub struct EvidenceIn<'a> {
    pub prop: &'a str,
    pub tier: &'a str,
    pub seed: u64,
    pub rule: String,
    pub stats: &'a Stats,
    pub wall_s: f64,
    pub violations: u64,
    pub extra: serde_json::Value,
    pub assumptions: Vec<String>,
}

pub fn write_evidence(verif_dir: &str, e: EvidenceIn) {
    let dir = format!("{verif_dir}/evidence");
    let _ = std::fs::create_dir_all(&dir);
    let mut coverage = serde_json::json!({
        "evaluations": e.stats.evaluations,
        "distinct_nontrivial": e.stats.digests.len(),
        "nontrivial_total": e.stats.nontrivial,
        "rule": e.rule,
        "samples": e.stats.samples,
        "classes": e.stats.classes,
        "skipped_by_guard": e.stats.skipped_by_guard,
        "known_findings_hit": e.stats.known_hits,
        "exhaustive": false,
    });
    if let (Some(c), Some(x)) = (coverage.as_object_mut(), e.extra.as_object()) {
        for (k, v) in x {
            c.insert(k.clone(), v.clone());
        }
    }
    let doc = serde_json::json!({
        "property_id": e.prop,
        "tier": e.tier,
        "seed": e.seed,
        "level": "exploration",
        "coverage": coverage,
        "assumptions": e.assumptions,
        "wall_s": e.wall_s,
        "violations": e.violations,
    });
    std::fs::write(format!("{dir}/{}.json", e.prop), serde_json::to_string_pretty(&doc).unwrap()).unwrap();
}

pub struct Timer(Instant);
impl Timer {
    pub fn start() -> Self {
        Timer(Instant::now())
    }
    pub fn secs(&self) -> f64 {
        self.0.elapsed().as_secs_f64()
    }
}
