//! Counting oracles: C14 (demand conservation), C15 (from_iter) and the C13 projection relation.

use crate::hist::*;
use crate::oracle::{finding, Ctx, Dir, Finding};
use crate::scn::*;
use crate::world::{self, leaf_value};

// =================================================================== C14

pub fn c14(cx: &Ctx) -> Vec<Finding> {
    let mut out = vec![];
    let Some(sub) = cx.subs.first() else { return out };
    let truncated = !cx.h.panics().is_empty();
    if truncated {
        return out; // C17's business
    }
    // (a) never more Data than Pulls, at every prefix
    let mut pulls = 0usize;
    let mut data = 0usize;
    for e in cx.probe_edge(sub) {
        match (e.dir, &e.msg) {
            (Dir::Up, M::Pull) => pulls += 1,
            (Dir::Down, M::Data(_)) => {
                data += 1;
                if data > pulls {
                    out.push(finding(
                        "C14",
                        "C14:unrequested-data",
                        format!("the sink had sent {pulls} Pulls when its {data}th Data arrived"),
                        e.start,
                    ));
                    return out;
                }
            }
            _ => {}
        }
    }
    // (b) after every top-level step: outstanding demand at the sink is in flight at some upstream
    let mut checkpoints: Vec<usize> =
        cx.h.log.iter().enumerate().filter(|(_, e)| matches!(e, Ev::Step { .. })).map(|(i, _)| i).collect();
    checkpoints.push(cx.h.log.len());
    for &cp in checkpoints.iter().skip(1) {
        if sub.over_at().map_or(false, |o| o < cp) || sub.greeted_at.map_or(true, |g| g >= cp) {
            continue;
        }
        let edge = cx.probe_edge(sub);
        let pulls = edge.iter().filter(|e| e.dir == Dir::Up && e.msg == M::Pull && e.start < cp).count();
        let data = edge.iter().filter(|e| e.dir == Dir::Down && e.msg.is_data() && e.start < cp).count();
        if pulls <= data {
            continue;
        }
        let in_flight = cx.insts.iter().any(|i| {
            if !i.live_at(cp) {
                return false;
            }
            let ev = cx.pup_edge(i);
            let p = ev.iter().filter(|e| e.dir == Dir::Up && e.msg == M::Pull && e.start < cp).count();
            let s = ev.iter().filter(|e| e.dir == Dir::Down && e.msg != M::Handshake && e.start < cp).count();
            p > s
        });
        if !in_flight {
            out.push(finding(
                "C14",
                format!("C14:demand-lost({})", cx.sc.topo.op_name()),
                format!(
                    "after the step ending at #{cp} the sink has {pulls} Pulls out and {data} Data in, the output is not over, and no upstream holds an unanswered Pull"
                ),
                cp,
            ));
            return out;
        }
    }
    out
}

pub fn nt_c14(cx: &Ctx) -> bool {
    let Some(sub) = cx.subs.first() else { return false };
    let sink_data = cx.probe_edge(sub).iter().filter(|e| e.dir == Dir::Down && e.msg.is_data()).count();
    let sent_data: usize = cx
        .insts
        .iter()
        .map(|i| {
            cx.pup_edge(i)
                .iter()
                .filter(|e| e.dir == Dir::Down && matches!(e.msg, M::Data(Val::I(_))))
                .count()
        })
        .sum();
    let dropped = sent_data > sink_data && (cx.sc.topo.contains("filter") || cx.sc.topo.contains("skip"));
    let boundary = cx.insts.len() >= 2;
    let deferred = cx.ix.spans.iter().enumerate().any(|(i, s)| {
        matches!(&s.site, Site::PupSend { msg, .. } if *msg != M::Handshake)
            && cx.ix.enclosing(i, |p| matches!(p.site, Site::PupRecv { .. })).is_none()
    });
    dropped || boundary || deferred
}

// =================================================================== C15

pub fn c15(cx: &Ctx) -> Vec<Finding> {
    let mut out = vec![];
    let Topo::FromIter { leaf, n } = &cx.sc.topo else { return out };
    let Some(sub) = cx.subs.first() else { return out };
    if !cx.h.panics().is_empty() {
        return out;
    }
    let unbounded = *n == 255;
    // order
    let got: Vec<i64> = cx
        .probe_data(sub)
        .into_iter()
        .filter_map(|(_, v)| if let Val::I(x) = v { Some(x) } else { None })
        .collect();
    let want: Vec<i64> = (0..got.len() as u32).map(|k| leaf_value(*leaf, k)).collect();
    if got != want || (!unbounded && got.len() > *n as usize) {
        out.push(finding("C15", "C15:order", format!("the sink received {got:?}, the iterator yields {want:?}.."), 0));
        return out;
    }
    // walk the log
    let mut pulls = 0usize;
    let mut data = 0usize;
    let mut nexts = 0usize;
    let mut nones = 0usize;
    let mut clones = 0usize;
    let mut completed_at: Option<usize> = None;
    let mut disposed_at: Option<usize> = None;
    for (i, ev) in cx.h.log.iter().enumerate() {
        match ev {
            Ev::Call { kind: CallKind::IterClone, .. } => {
                clones += 1;
                if nexts > 0 {
                    out.push(finding("C15", "C15:clone-after-next", "the iterable was cloned after iteration had begun".to_string(), i));
                }
            }
            Ev::Call { kind: CallKind::IterNext, ret, .. } => {
                nexts += 1;
                if ret.is_none() {
                    nones += 1;
                }
                if nexts > pulls {
                    out.push(finding("C15", "C15:advanced-without-pull", format!("next() call #{nexts} with only {pulls} Pulls sent"), i));
                    return out;
                }
                if let Some(d) = disposed_at {
                    out.push(finding("C15", "C15:next-after-disposal", format!("next() was called after the sink disposed at #{d}"), i));
                    return out;
                }
                if completed_at.is_some() {
                    out.push(finding("C15", "C15:next-after-completion", "next() was called after completion was signalled".to_string(), i));
                    return out;
                }
                // the outcome is delivered at once
                let next_enter = cx.h.log[i + 1..].iter().find(|e| matches!(e, Ev::Enter(_) | Ev::Step { .. }));
                let ok = match (ret, next_enter) {
                    (Some(v), Some(Ev::Enter(Site::SinkRecv { msg: M::Data(d), .. }))) => v == d,
                    (None, Some(Ev::Enter(Site::SinkRecv { msg: M::Terminate, .. }))) => true,
                    _ => false,
                };
                if !ok {
                    out.push(finding("C15", "C15:item-not-delivered", format!("next() returned {ret:?} but the next event was {next_enter:?}"), i));
                    return out;
                }
            }
            Ev::Enter(Site::SinkSend { msg, .. }) => match msg {
                M::Pull => pulls += 1,
                m if m.is_terminal() => disposed_at = Some(i),
                _ => {}
            },
            Ev::Enter(Site::SinkRecv { msg, .. }) => {
                let span = cx.ix.span_of_enter[i].unwrap();
                if disposed_at.is_some() {
                    out.push(finding("C15", "C15:delivery-after-disposal", format!("{} after disposal", msg.short()), i));
                    return out;
                }
                match msg {
                    M::Data(_) => {
                        data += 1;
                        if data > pulls {
                            out.push(finding("C15", "C15:unrequested-data", format!("Data #{data} with {pulls} Pulls"), i));
                            return out;
                        }
                    }
                    M::Terminate => {
                        if completed_at.is_some() {
                            out.push(finding("C15", "C15:second-terminate", "completion signalled twice".to_string(), i));
                        }
                        completed_at = Some(i);
                    }
                    _ => {}
                }
                // never re-entrant: no Data/Terminate begins inside a Data delivery to the same sink
                if matches!(msg, M::Data(_) | M::Terminate)
                    && cx.ix.enclosing(span, |s| matches!(s.site, Site::SinkRecv { msg: M::Data(_), .. })).is_some()
                {
                    out.push(finding(
                        "C15",
                        "C15:reentrant-delivery",
                        format!("a delivery of {} began while a Data delivery to the same sink was in progress", msg.short()),
                        i,
                    ));
                    return out;
                }
            }
            _ => {}
        }
    }
    if clones != 1 && !cx.subs.is_empty() {
        out.push(finding("C15", "C15:clone-count", format!("the iterable was cloned {clones} times for one subscription"), 0));
    }
    if nones > 1 {
        out.push(finding("C15", "C15:exhaustion-probed-twice", format!("next() returned None {nones} times"), 0));
    }
    if nexts != data + completed_at.is_some() as usize {
        out.push(finding(
            "C15",
            "C15:next-count",
            format!("{nexts} next() calls for {data} items delivered and completed={}", completed_at.is_some()),
            0,
        ));
    }
    // a Pull issued while the source is idle is answered before it returns
    for (xi, x) in cx.ix.spans.iter().enumerate() {
        if !matches!(x.site, Site::SinkSend { msg: M::Pull, .. }) {
            continue;
        }
        let idle = cx.ix.enclosing(xi, |s| matches!(s.site, Site::SinkRecv { msg: M::Data(_), .. })).is_none();
        let over_before = completed_at.map_or(false, |c| c < x.start) || disposed_at.map_or(false, |d| d < x.start);
        if idle && !over_before {
            let answered = cx.ix.spans.iter().any(|s| {
                matches!(s.site, Site::SinkRecv { msg: M::Data(_) | M::Terminate, .. }) && s.start > x.start && s.start < x.end
            });
            if !answered {
                out.push(finding("C15", "C15:pull-not-answered", format!("the Pull at #{} (source idle) returned without a Data or Terminate", x.start), x.start));
            }
        }
    }
    // exhaustion => completion exactly once
    if nones == 1 && completed_at.is_none() {
        out.push(finding("C15", "C15:completion-missing", "the iterator reported exhaustion but completion was not signalled".to_string(), 0));
    }
    out
}

pub fn nt_c15(cx: &Ctx) -> bool {
    let Some(sub) = cx.subs.first() else { return false };
    let nested_pull = cx.ix.spans.iter().enumerate().any(|(i, s)| {
        matches!(s.site, Site::SinkSend { msg: M::Pull, .. })
            && cx.ix.enclosing(i, |p| matches!(p.site, Site::SinkRecv { msg: M::Data(_), .. })).is_some()
    });
    let data = cx.probe_data(sub).len();
    let disposed_with_items_left = sub.disposed_at.is_some()
        && matches!(&cx.sc.topo, Topo::FromIter { n, .. } if (*n as usize) > data);
    let completed = matches!(sub.terminal_at, Some((_, M::Terminate))) && data >= 2;
    nested_pull || disposed_with_items_left || completed
}

// =================================================================== C13

#[derive(Clone, Debug, PartialEq, Eq)]
enum NEv {
    Enter(String),
    Exit,
    Call(String),
    Step,
    Panic(String),
    Attach(String),
}

/// Owner (subscription tag) of every log event, by identity of the actor: a probe's events belong to
/// that probe; a puppet instance belongs to the subscription in whose context it was created (the
/// innermost enclosing event's owner, else the step's tag); closure / iterator calls belong to the
/// innermost enclosing event. Also returns, per event, the owner of its enclosing context.
fn owners(h: &History) -> (Vec<u8>, Vec<u8>, std::collections::BTreeMap<(u8, u16), (u8, usize)>) {
    let mut own = vec![255u8; h.log.len()];
    let mut ctx = vec![255u8; h.log.len()];
    let mut inst_owner: std::collections::BTreeMap<(u8, u16), (u8, usize)> = Default::default();
    let mut per_owner: std::collections::BTreeMap<(u8, u8), usize> = Default::default();
    let mut base = 0u8;
    let mut stack: Vec<(usize, u8)> = vec![];
    for (i, ev) in h.log.iter().enumerate() {
        let cur = stack.last().map_or(base, |s| s.1);
        ctx[i] = cur;
        match ev {
            Ev::Step { tag, .. } => {
                base = *tag;
                stack.clear();
                own[i] = *tag;
            }
            Ev::Enter(site) => {
                let o = match site {
                    Site::SinkRecv { sink, .. } | Site::SinkSend { sink, .. } => *sink,
                    Site::PupRecv { pup, inst, msg: M::Handshake } if !inst_owner.contains_key(&(*pup, *inst)) => {
                        let k = per_owner.entry((*pup, cur)).or_default();
                        inst_owner.insert((*pup, *inst), (cur, *k));
                        *k += 1;
                        cur
                    }
                    Site::PupRecv { pup, inst, .. } | Site::PupSend { pup, inst, .. } => {
                        inst_owner.get(&(*pup, *inst)).map_or(cur, |x| x.0)
                    }
                    _ => cur,
                };
                own[i] = o;
                stack.push((i, o));
            }
            Ev::Exit(e) => {
                own[i] = own[*e];
                while let Some((k, _)) = stack.pop() {
                    if k == *e {
                        break;
                    }
                }
            }
            Ev::Attach { sink, .. } => own[i] = *sink,
            Ev::Owner { pup, inst, owner } => {
                // the puppet's own record of the subscription it was created for
                let k = per_owner.entry((*pup, *owner)).or_default();
                inst_owner.insert((*pup, *inst), (*owner, *k));
                *k += 1;
                own[i] = *owner;
            }
            _ => own[i] = cur,
        }
    }
    (own, ctx, inst_owner)
}

/// The events that belong to subscription `tag`, with identities normalised so that an interleaved run
/// can be compared with a solo run of that subscription.
fn project(h: &History, tag: u8) -> Vec<NEv> {
    let (own, _ctx, inst_owner) = owners(h);
    let mut errs: Vec<u32> = vec![];
    let norm_msg = |m: &M, errs: &mut Vec<u32>| -> String {
        match m {
            M::Error(e) => {
                let k = match errs.iter().position(|x| x == e) {
                    Some(k) => k,
                    None => {
                        errs.push(*e);
                        errs.len() - 1
                    }
                };
                format!("E{k}")
            }
            other => other.short(),
        }
    };
    let mut out = vec![];
    for (i, ev) in h.log.iter().enumerate() {
        if own[i] != tag {
            continue;
        }
        match ev {
            Ev::Enter(site) => {
                let s = match site {
                    Site::SinkRecv { sub, msg, .. } => format!("S.{sub}<{}", norm_msg(msg, &mut errs)),
                    Site::SinkSend { sub, msg, .. } => format!("S.{sub}>{}", norm_msg(msg, &mut errs)),
                    Site::PupRecv { pup, inst, msg } => {
                        let k = inst_owner.get(&(*pup, *inst)).map_or(0, |x| x.1);
                        format!("p{pup}.{k}<{}", norm_msg(msg, &mut errs))
                    }
                    Site::PupSend { pup, inst, msg } => {
                        let k = inst_owner.get(&(*pup, *inst)).map_or(0, |x| x.1);
                        format!("p{pup}.{k}>{}", norm_msg(msg, &mut errs))
                    }
                    Site::TapDown { tap, sub, msg } => format!("t{tap}.{sub}v{}", norm_msg(msg, &mut errs)),
                    Site::TapUp { tap, sub, msg } => format!("t{tap}.{sub}^{}", norm_msg(msg, &mut errs)),
                };
                out.push(NEv::Enter(s));
            }
            // returns are not compared: a cross-subscription action nests this subscription's events
            // inside the other one's handlers, which changes where deliveries return but not their order
            Ev::Exit(_) => {}
            Ev::Call { kind, id, arg, ret } => out.push(NEv::Call(format!("{kind:?}#{id}({arg:?})={ret:?}"))),
            Ev::Panic { message, .. } => out.push(NEv::Panic(message.clone())),
            Ev::Attach { sub, .. } => out.push(NEv::Attach(format!("S.{sub}"))),
            Ev::Step { .. } | Ev::Owner { .. } => {}
        }
    }
    out
}

/// The solo scenario of subscription `tag`: its own steps, its sink spec as probe 0, and one top-level
/// Pull for every Pull that the OTHER subscription's handlers issued on its talkback in the
/// interleaved run (cross-subscription actions), at the same place in its own order of events.
fn solo(sc: &Scenario, h: &History, tag: u8) -> Scenario {
    let (own, ctx, _) = owners(h);
    // cross-issued pulls per schedule step
    let mut cross: std::collections::BTreeMap<usize, usize> = Default::default();
    let mut step_k: Option<usize> = None;
    for (i, ev) in h.log.iter().enumerate() {
        match ev {
            Ev::Step { k, .. } => step_k = if *k == usize::MAX { None } else { Some(*k) },
            Ev::Enter(Site::SinkSend { sink, msg: M::Pull, .. }) if *sink == tag && own[i] == tag && ctx[i] != tag => {
                if let Some(k) = step_k {
                    *cross.entry(k).or_default() += 1;
                }
            }
            _ => {}
        }
    }
    if sc.sink_kind == SinkKind::ForEachShared {
        // the same for_each value applied to member `tag` alone; tags and puppet ids stay as they are
        let mut s = sc.clone();
        s.fe_only = Some(tag);
        s.schedule = sc.schedule.iter().filter(|st| matches!(st, Step::Pup { owner, .. } if *owner == tag)).cloned().collect();
        return s;
    }
    let mut s = sc.clone();
    let mut spec = sc.sinks.get(tag as usize).cloned().unwrap_or_default();
    // in the solo run there is no other subscription to act on
    for r in spec.react.iter_mut() {
        if *r == React::PullOther {
            *r = React::Nothing;
        }
    }
    if spec.react_default == React::PullOther {
        spec.react_default = React::Nothing;
    }
    s.sinks = vec![spec];
    s.attach_first = sc.attach_first && tag == 0;
    s.schedule = vec![];
    for (k, st) in sc.schedule.iter().enumerate() {
        match *st {
            Step::Pup { p, owner, act } if owner == tag => s.schedule.push(Step::Pup { p, owner: 0, act }),
            Step::Sink { s: x, act } if x == tag => s.schedule.push(Step::Sink { s: 0, act }),
            _ => {
                // a step of the other subscription: only its cross-issued pulls concern this one
                for _ in 0..cross.get(&k).copied().unwrap_or(0) {
                    s.schedule.push(Step::Sink { s: 0, act: StepSAct::Pull });
                }
            }
        }
    }
    s
}

fn render_n(v: &[NEv]) -> String {
    let mut s = String::new();
    for e in v {
        match e {
            NEv::Enter(x) => {
                s.push_str(x);
                s.push('[');
            }
            NEv::Exit => s.push_str("] "),
            NEv::Call(c) => {
                s.push_str(c);
                s.push(' ');
            }
            NEv::Step => s.push_str("| "),
            NEv::Panic(p) => s.push_str(&format!("PANIC({p}) ")),
            NEv::Attach(a) => s.push_str(&format!("attach:{a} ")),
        }
    }
    s
}

pub fn c13(cx: &Ctx) -> Vec<Finding> {
    let mut out = vec![];
    if cx.has_share {
        return out;
    }
    for tag in 0..2u8 {
        let inter = project(cx.h, tag);
        let solo_sc = solo(cx.sc, cx.h, tag);
        let solo_h = world::run(&solo_sc);
        let alone = project(&solo_h, if cx.sc.sink_kind == SinkKind::ForEachShared { tag } else { 0 });
        if inter != alone {
            // first difference
            let k = inter.iter().zip(alone.iter()).position(|(a, b)| a != b).unwrap_or(inter.len().min(alone.len()));
            out.push(finding(
                "C13",
                format!("C13:differs-from-solo({})", cx.sc.topo.op_name()),
                format!(
                    "subscription {tag}: interleaved projection differs from its solo run at event {k}: interleaved `{}` vs solo `{}`",
                    render_n(&inter[k.saturating_sub(2)..(k + 3).min(inter.len())]),
                    render_n(&alone[k.saturating_sub(2)..(k + 3).min(alone.len())])
                ),
                0,
            ));
            return out;
        }
    }
    out
}

pub fn nt_c13(cx: &Ctx) -> bool {
    if cx.sc.sink_kind == SinkKind::ForEachShared {
        // both applications of the one for_each value consumed data
        let (own, _, _) = owners(cx.h);
        let mut seen = [false; 2];
        for (i, e) in cx.h.log.iter().enumerate() {
            if matches!(e, Ev::Call { kind: CallKind::ForEachF, .. }) && (own[i] as usize) < 2 {
                seen[own[i] as usize] = true;
            }
        }
        return seen[0] && seen[1];
    }
    // both subscriptions received data and their steps actually interleaved
    let a = cx.subs.iter().any(|s| s.sink == 0 && !cx.probe_data(s).is_empty());
    let b = cx.subs.iter().any(|s| s.sink == 1 && !cx.probe_data(s).is_empty());
    let tags: Vec<u8> = cx
        .h
        .log
        .iter()
        .filter_map(|e| if let Ev::Step { tag, .. } = e { Some(*tag) } else { None })
        .collect();
    let switches = tags.windows(2).filter(|w| w[0] != w[1]).count();
    let (own, ctx, _) = owners(cx.h);
    let cross = cx.h.log.iter().enumerate().any(|(i, e)| matches!(e, Ev::Enter(Site::SinkSend { .. })) && own[i] != ctx[i] && ctx[i] != 255 && cx.ix.span_of_enter[i].map_or(false, |s| cx.ix.spans[s].parent.is_some()));
    a && b && (switches >= 2 || cross)
}
