//! Scenario = operator topology + per-peer behaviour tables + a top-level schedule.
//! Scenarios are decoded from a byte string ("choice sequence"): proptest generates and shrinks the
//! bytes, libFuzzer mutates them, and the same decoder serves both. An exhausted byte string yields
//! 0 for every further choice, and 0 always selects the simplest alternative.

use serde::{Deserialize, Serialize};

#[derive(Clone, Debug, Serialize, Deserialize, PartialEq, Eq, Hash)]
pub enum Topo {
    Puppet(u8),
    FromIter { leaf: u8, n: u8 },
    Map(u8, Box<Topo>),
    Filter(u8, Box<Topo>),
    Scan(u8, i64, Box<Topo>),
    Take(u8, Box<Topo>),
    Skip(u8, Box<Topo>),
    Merge(Vec<Topo>),
    Concat(Vec<Topo>),
    Combine(Vec<Topo>),
    /// flatten(outer puppet); the outer puppet's k-th item is the source `inners[order[k]]`
    /// (`inners[k]` when `order` is empty), so the same inner source can be emitted again
    Flatten {
        outer: u8,
        inners: Vec<Topo>,
        #[serde(default)]
        order: Vec<u8>,
    },
    /// flatten(map(g)(outer)) with g(v) = inners[v mod len]
    FlatMap { outer: Box<Topo>, inners: Vec<Topo> },
    Share(Box<Topo>),
    /// one shared node consumed by two branches of the same tree:
    /// `let s = share(inner); merge!(map(f)(s.clone()), filter(p)(s))`
    Diamond(u8, u8, Box<Topo>),
}

#[derive(Clone, Copy, Debug, Serialize, Deserialize, PartialEq, Eq, Hash)]
pub enum PAct {
    Emit,
    End,
    Error,
}

#[derive(Clone, Copy, Debug, Serialize, Deserialize, PartialEq, Eq, Hash)]
pub enum Finale {
    End,
    Error,
    Never,
}

#[derive(Clone, Copy, Debug, Serialize, Deserialize, PartialEq, Eq, Hash)]
pub enum Reply {
    Ignore,
    Sync,
    Deferred,
    /// answer the Pull with the next item and then complete, inside the same call
    SyncEnd,
}

#[derive(Clone, Debug, Serialize, Deserialize, PartialEq, Eq, Hash)]
pub struct PuppetSpec {
    pub late: bool,
    pub burst: Vec<PAct>,
    pub max_items: u8,
    pub finale: Finale,
    pub reply: Vec<Reply>,
    pub reply_default: Reply,
    /// NOT conformant: keeps acting after it was terminated (generated for C20's differential only)
    #[serde(default)]
    pub zombie: bool,
}

impl Default for PuppetSpec {
    fn default() -> Self {
        PuppetSpec {
            late: false,
            burst: vec![],
            max_items: 3,
            finale: Finale::End,
            reply: vec![],
            reply_default: Reply::Ignore,
            zombie: false,
        }
    }
}

#[derive(Clone, Copy, Debug, Serialize, Deserialize, PartialEq, Eq, Hash)]
pub enum React {
    Nothing,
    Pull,
    Pull2,
    Terminate,
    Error,
    /// ask for more and then leave, from inside the same handler
    PullTerminate,
    PullError,
    /// two-subscription profiles: pull on the OTHER subscription's talkback from inside this handler
    PullOther,
    /// from inside this handler, make upstream puppet (k mod #puppets) push its next item now (a
    /// subject-like source that emits re-entrantly, nested in another delivery)
    Poke(u8),
    /// share profiles: from inside this handler the NEXT probe leaves (sends Terminate on its own talkback)
    DisposeOther,
    /// share profiles: the next probe leaves and a free probe subscribes, inside this handler
    Switch,
    /// share profiles: this probe subscribes again from inside the handler in which its subscription
    /// ended (a repeat-style consumer such as concat!(s.clone(), s))
    Reattach,
}

#[derive(Clone, Debug, Serialize, Deserialize, PartialEq, Eq, Hash)]
pub struct SinkSpec {
    pub react: Vec<React>,
    pub react_default: React,
    /// credit mode (C14): a Pull is only sent while pulls_sent < messages_received
    pub credit: bool,
    /// C15 only: the sink keeps pulling after it has received Terminate (from_iter must ignore that)
    #[serde(default)]
    pub pull_after_end: bool,
    /// NOT conformant: uses its talkback regardless of terminations (generated for C20's differential only)
    #[serde(default)]
    pub rogue: bool,
}

impl Default for SinkSpec {
    fn default() -> Self {
        SinkSpec { react: vec![], react_default: React::Nothing, credit: false, pull_after_end: false, rogue: false }
    }
}

#[derive(Clone, Copy, Debug, Serialize, Deserialize, PartialEq, Eq, Hash)]
pub enum StepPAct {
    Emit,
    End,
    Error,
    Flush,
    Greet,
}

#[derive(Clone, Copy, Debug, Serialize, Deserialize, PartialEq, Eq, Hash)]
pub enum StepSAct {
    Pull,
    Terminate,
    Error,
    Attach,
}

pub const ANY_OWNER: u8 = 255;

#[derive(Clone, Copy, Debug, Serialize, Deserialize, PartialEq, Eq, Hash)]
pub enum Step {
    /// act on the latest live instance of puppet `p` owned by subscription `owner` (255 = any)
    Pup { p: u8, owner: u8, act: StepPAct },
    Sink { s: u8, act: StepSAct },
}

#[derive(Clone, Copy, Debug, Serialize, Deserialize, PartialEq, Eq, Hash)]
pub enum SinkKind {
    Probe,
    /// the crate's for_each is the sink under test; probes are unused
    ForEach,
    /// ONE for_each(f) value applied to each member of the root Merge node separately (the Merge itself
    /// is not built): two subscriptions made through the same sink factory
    ForEachShared,
}

#[derive(Clone, Debug, Serialize, Deserialize, PartialEq, Eq, Hash)]
pub struct Scenario {
    pub topo: Topo,
    /// combine! at the root delivers its tuple to the probe unpacked (single-operator profile)
    pub root_tuple: bool,
    pub sink_kind: SinkKind,
    pub puppets: Vec<PuppetSpec>,
    pub sinks: Vec<SinkSpec>,
    /// probe 0 is attached before the schedule starts
    pub attach_first: bool,
    /// ForEachShared only: apply the for_each value to this member alone (solo run)
    #[serde(default)]
    pub fe_only: Option<u8>,
    pub schedule: Vec<Step>,
}

#[derive(Clone, Copy, Debug, PartialEq, Eq, Serialize, Deserialize)]
pub enum Op {
    Map,
    Filter,
    Scan,
    Take,
    Skip,
    Merge,
    Concat,
    Combine,
    Flatten,
}

pub const ALL_OPS: [Op; 9] =
    [Op::Map, Op::Filter, Op::Scan, Op::Take, Op::Skip, Op::Merge, Op::Concat, Op::Combine, Op::Flatten];

#[derive(Clone, Copy, Debug, PartialEq, Eq, Serialize, Deserialize)]
pub enum Profile {
    /// the root operator directly over puppets
    Single(Op),
    /// a random single operator (first byte chooses)
    AnySingle,
    /// operator trees of depth <= 3 over puppets and from_iter leaves
    Composed,
    /// share over one puppet, 1..=3 probes; with 2+ probes the puppet never replies to a Pull
    /// synchronously (C12's quantifier excludes nested fan-out)
    Share,
    /// share over one puppet, 1..=3 probes, synchronous Pull replies allowed (nested fan-out)
    ShareNested,
    /// Share plus cross-sink actions from inside handlers (another probe leaves / a free probe joins)
    ShareCross,
    /// ShareCross plus probes that subscribe again from inside their own end handler
    ShareReattach,
    /// for_each (crate sink) over a single operator or a bare puppet
    ForEach,
    /// two subscriptions to one output (any operator but share)
    Indep,
    /// two subscriptions to the output of one operator sitting directly on puppets (the operator
    /// models are evaluated per subscription)
    Dual(Op),
    /// demand accounting: pullable puppets, credit-respecting sinks
    PullCount,
    /// from_iter directly under a probe (n = 255 means an unbounded iterator)
    FromIterDirect,
    /// one for_each(f) value applied to two puppet sources (C13: the sink factory is reusable)
    ForEachDual,
    /// like AnySingle / Composed but some peers break the protocol (zombie sources, rogue sinks);
    /// only C20's cross-build differential uses it (its oracle does not depend on conformance)
    Rogue,
    /// share over one puppet that may greet late (used for C01 only: on the unchanged tree a sink that
    /// pulls before the upstream has greeted makes share panic, which is outside C17's quantifier)
    LateShare,
    /// one operator (not share, not combine) directly over puppets, any of which may greet late
    /// (beyond the stated quantifier, which has late greeters under merge! only; see DESIGN 12.6)
    LateAny,
    /// puppet -> probe, no crate code (harness self-check)
    SelfCheck,
}

pub struct Dec<'a> {
    d: &'a [u8],
    pos: usize,
}

impl<'a> Dec<'a> {
    pub fn new(d: &'a [u8]) -> Self {
        Dec { d, pos: 0 }
    }
    pub fn u8(&mut self) -> u8 {
        let b = self.d.get(self.pos).copied().unwrap_or(0);
        self.pos += 1;
        b
    }
    /// monotone map of one byte onto 0..n
    pub fn below(&mut self, n: usize) -> usize {
        if n <= 1 {
            // still consume a byte so that layouts stay aligned
            self.u8();
            return 0;
        }
        (self.u8() as usize * n) >> 8
    }
    pub fn pick<T: Copy>(&mut self, xs: &[T]) -> T {
        xs[self.below(xs.len())]
    }
    pub fn more(&self) -> bool {
        self.pos < self.d.len()
    }
}

struct Gen<'a, 'b> {
    d: &'b mut Dec<'a>,
    n_pup: u8,
    n_leaf: u8,
    /// per puppet: may greet late
    late_ok: Vec<bool>,
    /// leaves are always puppets (the operator models need every upstream instrumented)
    puppets_only: bool,
    /// take(0) may be generated (only where no model or counting oracle assumes n >= 1)
    take_zero: bool,
    late_everywhere: bool,
    /// user closures with internal state (a call counter that a clone copies) may be generated: only
    /// where no reference model evaluates the closures (C13's projection relation)
    stateful: bool,
}

impl<'a, 'b> Gen<'a, 'b> {
    fn puppet(&mut self, late_ok: bool) -> Topo {
        let id = self.n_pup;
        self.n_pup += 1;
        self.late_ok.push(late_ok || self.late_everywhere);
        Topo::Puppet(id)
    }
    fn leaf(&mut self, late_ok: bool) -> Topo {
        // mostly puppets, sometimes a real from_iter
        if self.d.u8() < 208 || self.puppets_only {
            self.puppet(late_ok)
        } else {
            let leaf = self.n_leaf;
            self.n_leaf += 1;
            let n = self.d.below(6) as u8;
            Topo::FromIter { leaf, n }
        }
    }
    fn members(&mut self, depth: usize, min: usize, max: usize, late_ok: bool) -> Vec<Topo> {
        let n = min + self.d.below(max - min + 1);
        (0..n).map(|_| self.tree(depth, late_ok)).collect()
    }
    fn op(&mut self, op: Op, depth: usize, at_root: bool) -> Topo {
        match op {
            Op::Map => Topo::Map(self.d.below(if self.stateful { 7 } else { 5 }) as u8, Box::new(self.tree(depth, false))),
            Op::Filter => Topo::Filter(self.d.below(if self.stateful { 7 } else { 5 }) as u8, Box::new(self.tree(depth, false))),
            Op::Scan => {
                let r = self.d.below(if self.stateful { 6 } else { 4 }) as u8;
                let seed = self.d.below(7) as i64 - 2;
                Topo::Scan(r, seed, Box::new(self.tree(depth, false)))
            }
            Op::Take => {
                let k = self.d.below(if self.take_zero { 8 } else { 6 }) as u8;
                // 6 and 7 stand for take(0) where that is allowed
                let n = if k >= 6 { 0 } else { 1 + k };
                Topo::Take(n, Box::new(self.tree(depth, false)))
            }
            Op::Skip => Topo::Skip(self.d.below(7) as u8, Box::new(self.tree(depth, false))),
            Op::Merge => Topo::Merge(self.members(depth, 1, 4, at_root)),
            Op::Concat => Topo::Concat(self.members(depth, 1, 4, false)),
            Op::Combine => {
                // arities 1..=3, and occasionally the widest instance of the macro (12) where the tuple
                // reaches the probe unpacked
                if self.puppets_only && depth == 0 && self.d.u8() >= 244 {
                    Topo::Combine((0..12).map(|_| self.tree(0, false)).collect())
                } else {
                    Topo::Combine(self.members(depth, 1, 3, false))
                }
            }
            Op::Flatten => {
                let Topo::Puppet(outer) = self.puppet(false) else { unreachable!() };
                let inners = self.members(depth, 0, 4, false);
                // sometimes the outer emits its inner sources in a generated order with repetitions
                let mut order = vec![];
                if !inners.is_empty() && self.d.below(3) == 2 {
                    let n = 1 + self.d.below(6);
                    order = (0..n).map(|_| self.d.below(inners.len()) as u8).collect();
                }
                Topo::Flatten { outer, inners, order }
            }
        }
    }
    /// a subtree of height <= depth (depth 0 = leaf)
    fn tree(&mut self, depth: usize, late_ok: bool) -> Topo {
        if depth == 0 {
            return self.leaf(late_ok);
        }
        // 0 => leaf, so that exhausted input gives the smallest tree
        let k = self.d.below(13);
        match k {
            0..=2 => self.leaf(late_ok),
            3 => self.op(Op::Map, depth - 1, false),
            4 => self.op(Op::Filter, depth - 1, false),
            5 => self.op(Op::Scan, depth - 1, false),
            6 => self.op(Op::Take, depth - 1, false),
            7 => self.op(Op::Skip, depth - 1, false),
            8 => self.op(Op::Merge, depth - 1, false),
            9 => self.op(Op::Concat, depth - 1, false),
            10 => self.op(Op::Combine, depth - 1, false),
            11 => self.op(Op::Flatten, depth - 1, false),
            _ => {
                let outer = Box::new(self.tree(depth - 1, false));
                let inners = self.members(depth - 1, 1, 3, false);
                Topo::FlatMap { outer, inners }
            }
        }
    }

    fn puppet_spec(&mut self, late_ok: bool, pullcount: bool, no_sync: bool) -> PuppetSpec {
        let d = &mut *self.d;
        if pullcount {
            let max_items = d.below(7) as u8;
            let finale = d.pick(&[Finale::End, Finale::Error]);
            let reply_default = d.pick(&[Reply::Sync, Reply::Deferred]);
            let n = d.below(5);
            let reply = (0..n).map(|_| d.pick(&[Reply::Sync, Reply::Deferred])).collect();
            return PuppetSpec { late: false, burst: vec![], max_items, finale, reply, reply_default, zombie: false };
        }
        let style = d.below(4);
        let late = late_ok && d.below(3) == 2;
        let max_items = d.below(7) as u8;
        let finale = d.pick(&[Finale::End, Finale::End, Finale::Error, Finale::Never]);
        let fix = |r: Reply| if no_sync && matches!(r, Reply::Sync | Reply::SyncEnd) { Reply::Deferred } else { r };
        match style {
            0 => {
                // listenable
                let nb = d.below(4);
                let burst =
                    (0..nb).map(|_| d.pick(&[PAct::Emit, PAct::Emit, PAct::End, PAct::Error])).collect();
                PuppetSpec { late, burst, max_items, finale, reply: vec![], reply_default: Reply::Ignore, zombie: false }
            }
            1 => PuppetSpec {
                late,
                burst: vec![],
                max_items,
                finale,
                reply: vec![],
                reply_default: fix(Reply::Sync),
                zombie: false,
            },
            2 => PuppetSpec { late, burst: vec![], max_items, finale, reply: vec![], reply_default: Reply::Deferred, zombie: false },
            _ => {
                let nb = d.below(3);
                let burst =
                    (0..nb).map(|_| d.pick(&[PAct::Emit, PAct::Emit, PAct::End, PAct::Error])).collect();
                let n = d.below(6);
                let reply = (0..n)
                    .map(|_| fix(d.pick(&[Reply::Ignore, Reply::Sync, Reply::Deferred, Reply::Sync, Reply::SyncEnd])))
                    .collect();
                let reply_default = fix(d.pick(&[Reply::Ignore, Reply::Sync, Reply::Deferred]));
                PuppetSpec { late, burst, max_items, finale, reply, reply_default, zombie: false }
            }
        }
    }

    fn sink_spec(&mut self, pullcount: bool, cross: bool, poke_ok: bool) -> SinkSpec {
        let d = &mut *self.d;
        if pullcount {
            let react_default = d.pick(&[React::Pull, React::Nothing]);
            let n = d.below(7);
            let react = (0..n)
                .map(|_| d.pick(&[React::Pull, React::Nothing, React::Pull, React::Terminate, React::Error]))
                .collect();
            return SinkSpec { react, react_default, credit: true, pull_after_end: false, rogue: false };
        }
        let style = d.below(4);
        match style {
            0 => SinkSpec::default(),
            1 => SinkSpec { react: vec![], react_default: React::Pull, credit: false, pull_after_end: false, rogue: false },
            2 => {
                // passive (or puller) that disposes at one position
                let base = d.pick(&[React::Nothing, React::Pull]);
                let k = d.below(7);
                let t = d.pick(&[React::Terminate, React::Error, React::PullTerminate, React::PullError]);
                let mut react = vec![base; k];
                react.push(t);
                SinkSpec { react, react_default: base, credit: false, pull_after_end: false, rogue: false }
            }
            _ => {
                let n = d.below(8);
                const R: [React; 9] = [
                    React::Nothing,
                    React::Pull,
                    React::Nothing,
                    React::Pull,
                    React::Pull2,
                    React::Terminate,
                    React::Error,
                    React::PullTerminate,
                    React::PullError,
                ];
                let mut react: Vec<React> = (0..n).map(|_| d.pick(&R)).collect();
                if poke_ok {
                    for r in react.iter_mut() {
                        if d.below(8) == 7 {
                            *r = React::Poke(d.u8());
                        }
                    }
                }
                if cross {
                    // sprinkle cross-subscription pulls
                    for r in react.iter_mut() {
                        if d.below(4) == 3 {
                            *r = React::PullOther;
                        }
                    }
                }
                let react_default = d.pick(&[React::Nothing, React::Pull]);
                SinkSpec { react, react_default, credit: false, pull_after_end: false, rogue: false }
            }
        }
    }
}

pub fn decode(profile: Profile, bytes: &[u8], max_steps: usize) -> Scenario {
    let mut dec = Dec::new(bytes);
    let mut g = Gen {
        d: &mut dec,
        n_pup: 0,
        n_leaf: 0,
        late_ok: vec![],
        puppets_only: matches!(profile, Profile::Single(_) | Profile::Dual(_) | Profile::Share | Profile::ShareNested | Profile::ShareCross | Profile::ShareReattach | Profile::LateShare | Profile::LateAny | Profile::ForEachDual),
        take_zero: matches!(profile, Profile::AnySingle | Profile::Composed),
        late_everywhere: false,
        stateful: profile == Profile::Indep,
    };
    let mut root_tuple = false;
    let mut sink_kind = SinkKind::Probe;
    let mut n_sinks = 1usize;
    let mut attach_first = true;
    let mut pullcount = false;
    let mut no_sync = false;
    let topo = match profile {
        Profile::SelfCheck => g.puppet(true),
        Profile::Single(op) => {
            if op == Op::Combine {
                root_tuple = true;
            }
            g.op(op, 0, true)
        }
        Profile::AnySingle => {
            let op = ALL_OPS[g.d.below(ALL_OPS.len())];
            if op == Op::Combine {
                root_tuple = true;
            }
            g.op(op, 0, true)
        }
        Profile::Composed => {
            // root is always an operator
            let k = 3 + g.d.below(11);
            let depth = 1 + g.d.below(2);
            match k {
                13 => {
                    // the shared upstream never answers a Pull synchronously: both branches pull it and a
                    // synchronous answer would be a nested fan-out (outside C12's quantifier)
                    no_sync = true;
                    let f = g.d.below(5) as u8;
                    let q = g.d.below(5) as u8;
                    let inner = g.tree(depth - 1, false);
                    Topo::Diamond(f, q, Box::new(inner))
                }
                3 => g.op(Op::Map, depth, true),
                4 => g.op(Op::Filter, depth, true),
                5 => g.op(Op::Scan, depth, true),
                6 => g.op(Op::Take, depth, true),
                7 => g.op(Op::Skip, depth, true),
                8 => g.op(Op::Merge, depth, true),
                9 => g.op(Op::Concat, depth, true),
                10 => g.op(Op::Combine, depth, true),
                11 => g.op(Op::Flatten, depth, true),
                _ => {
                    let outer = Box::new(g.tree(depth, false));
                    let inners = g.members(depth, 1, 3, false);
                    Topo::FlatMap { outer, inners }
                }
            }
        }
        Profile::Share | Profile::ShareNested | Profile::LateShare | Profile::ShareCross | Profile::ShareReattach => {
            n_sinks = if matches!(profile, Profile::ShareCross | Profile::ShareReattach) { 2 + g.d.below(2) } else { 1 + g.d.below(3) };
            attach_first = false;
            no_sync = n_sinks >= 2 && profile != Profile::ShareNested && profile != Profile::LateShare;
            Topo::Share(Box::new(g.puppet(profile == Profile::LateShare)))
        }
        Profile::ForEach => {
            sink_kind = SinkKind::ForEach;
            let k = g.d.below(ALL_OPS.len() + 2);
            if k < 2 {
                g.puppet(false)
            } else {
                g.op(ALL_OPS[k - 2], 0, false)
            }
        }
        Profile::Dual(op) => {
            n_sinks = 2;
            if op == Op::Combine {
                root_tuple = true;
            }
            g.op(op, 0, false)
        }
        Profile::Indep => {
            n_sinks = 2;
            let k = g.d.below(ALL_OPS.len() + 1);
            let depth = g.d.below(2);
            if k == 0 {
                let leaf = g.n_leaf;
                g.n_leaf += 1;
                Topo::FromIter { leaf, n: 1 + g.d.below(6) as u8 }
            } else {
                g.op(ALL_OPS[k - 1], depth, false)
            }
        }
        Profile::ForEachDual => {
            sink_kind = SinkKind::ForEachShared;
            let a = g.puppet(false);
            let b = g.puppet(false);
            Topo::Merge(vec![a, b])
        }
        Profile::Rogue => {
            let depth = g.d.below(3);
            if depth == 0 {
                let op = ALL_OPS[g.d.below(ALL_OPS.len())];
                g.op(op, 0, true)
            } else {
                let op = ALL_OPS[g.d.below(ALL_OPS.len())];
                g.op(op, depth, true)
            }
        }
        Profile::LateAny => {
            g.late_everywhere = true;
            const OPS: [Op; 7] = [Op::Concat, Op::Map, Op::Filter, Op::Scan, Op::Take, Op::Skip, Op::Flatten];
            let op = OPS[g.d.below(OPS.len())];
            g.op(op, 0, true)
        }
        Profile::FromIterDirect => {
            let n = g.d.pick(&[3u8, 0, 1, 2, 5, 8, 64, 255]);
            g.n_leaf = 1;
            Topo::FromIter { leaf: 0, n }
        }
        Profile::PullCount => {
            pullcount = true;
            const OPS: [Op; 7] = [Op::Map, Op::Filter, Op::Scan, Op::Take, Op::Skip, Op::Concat, Op::Flatten];
            let k = g.d.below(OPS.len() + 2);
            if k == OPS.len() + 1 {
                let leaf = g.n_leaf;
                g.n_leaf += 1;
                Topo::FromIter { leaf, n: g.d.below(7) as u8 }
            } else if k == OPS.len() {
                // composition of two of them
                let a = OPS[g.d.below(OPS.len())];
                let inner = g.op(a, 0, false);
                let b = g.d.below(5);
                match b {
                    0 => Topo::Map(g.d.below(5) as u8, Box::new(inner)),
                    1 => Topo::Filter(g.d.below(5) as u8, Box::new(inner)),
                    2 => Topo::Take(1 + g.d.below(6) as u8, Box::new(inner)),
                    3 => Topo::Skip(g.d.below(7) as u8, Box::new(inner)),
                    _ => {
                        // take ends right after its nth item without being asked, so its output does not
                        // satisfy the premise (one answer per Pull) that concat! needs from its members
                        let inner = if let Topo::Take(_, c) = inner { Topo::Skip(1, c) } else { inner };
                        let other = g.leaf(false);
                        Topo::Concat(vec![inner, other])
                    }
                }
            } else {
                g.op(OPS[k], 0, false)
            }
        }
    };
    let n_pup = g.n_pup as usize;
    let late_ok = g.late_ok.clone();
    let puppets: Vec<PuppetSpec> =
        (0..n_pup).map(|i| g.puppet_spec(late_ok[i], pullcount, no_sync)).collect();
    let cross = matches!(profile, Profile::Indep | Profile::Dual(_));
    // nested fan-out under share with 2+ sinks is outside C12's quantifier (it is generated by ShareNested)
    let poke_ok = !no_sync;
    let mut sinks: Vec<SinkSpec> = (0..n_sinks).map(|_| g.sink_spec(pullcount, cross, poke_ok)).collect();
    if profile == Profile::FromIterDirect {
        sinks[0].pull_after_end = g.d.below(3) == 2;
    }
    if matches!(profile, Profile::ShareCross | Profile::ShareReattach) {
        for sp in sinks.iter_mut() {
            // make the tables long enough to hold a few cross actions
            while sp.react.len() < 4 {
                sp.react.push(sp.react_default);
            }
            for r in sp.react.iter_mut() {
                match g.d.below(12) {
                    0 | 1 => *r = React::DisposeOther,
                    2 => *r = React::Switch,
                    3 | 4 if profile == Profile::ShareReattach => *r = React::Reattach,
                    _ => {}
                }
            }
            if profile == Profile::ShareReattach && g.d.below(2) == 1 {
                sp.react_default = React::Reattach;
            }
        }
    }
    let mut puppets = puppets;
    if profile == Profile::Rogue {
        for p in puppets.iter_mut() {
            p.zombie = g.d.below(2) == 1;
        }
        for s in sinks.iter_mut() {
            s.rogue = g.d.below(2) == 1;
        }
    }
    // schedule
    let mut schedule = vec![];
    let d = &mut *g.d;
    while d.more() && schedule.len() < max_steps {
        // about two thirds of the steps go to the sources (a scenario in which the sink leaves at once explores little)
        let who = if n_pup == 0 {
            n_pup + d.below(n_sinks)
        } else if d.below(3) < 2 {
            d.below(n_pup)
        } else {
            n_pup + d.below(n_sinks)
        };
        if who < n_pup {
            let act = if pullcount {
                StepPAct::Flush
            } else {
                d.pick(&[
                    StepPAct::Emit,
                    StepPAct::Emit,
                    StepPAct::Flush,
                    StepPAct::Emit,
                    StepPAct::Greet,
                    StepPAct::Emit,
                    StepPAct::End,
                    StepPAct::Emit,
                    StepPAct::Flush,
                    StepPAct::Emit,
                    StepPAct::Error,
                ])
            };
            let owner = if matches!(profile, Profile::Indep | Profile::Dual(_)) {
                d.below(2) as u8
            } else if profile == Profile::ForEachDual {
                who as u8
            } else {
                ANY_OWNER
            };
            schedule.push(Step::Pup { p: who as u8, owner, act });
        } else {
            let s = (who - n_pup) as u8;
            let act = if matches!(profile, Profile::Share | Profile::ShareNested | Profile::LateShare | Profile::ShareCross | Profile::ShareReattach | Profile::Indep | Profile::Dual(_)) {
                d.pick(&[
                    StepSAct::Attach,
                    StepSAct::Pull,
                    StepSAct::Pull,
                    StepSAct::Attach,
                    StepSAct::Pull,
                    StepSAct::Terminate,
                    StepSAct::Pull,
                    StepSAct::Attach,
                    StepSAct::Pull,
                    StepSAct::Error,
                ])
            } else {
                d.pick(&[
                    StepSAct::Pull,
                    StepSAct::Pull,
                    StepSAct::Pull,
                    StepSAct::Pull,
                    StepSAct::Terminate,
                    StepSAct::Pull,
                    StepSAct::Pull,
                    StepSAct::Pull,
                    StepSAct::Error,
                ])
            };
            schedule.push(Step::Sink { s, act });
        }
    }
    Scenario { topo, root_tuple, sink_kind, puppets, sinks, attach_first, fe_only: None, schedule }
}

impl Topo {
    pub fn children(&self) -> Vec<&Topo> {
        match self {
            Topo::Puppet(_) | Topo::FromIter { .. } => vec![],
            Topo::Map(_, t)
            | Topo::Filter(_, t)
            | Topo::Scan(_, _, t)
            | Topo::Take(_, t)
            | Topo::Skip(_, t)
            | Topo::Share(t)
            | Topo::Diamond(_, _, t) => vec![t],
            Topo::Merge(ts) | Topo::Concat(ts) | Topo::Combine(ts) => ts.iter().collect(),
            Topo::Flatten { inners, .. } => inners.iter().collect(),
            Topo::FlatMap { outer, inners } => {
                let mut v = vec![&**outer];
                v.extend(inners.iter());
                v
            }
        }
    }
    pub fn op_name(&self) -> &'static str {
        match self {
            Topo::Puppet(_) => "puppet",
            Topo::FromIter { .. } => "from_iter",
            Topo::Map(..) => "map",
            Topo::Filter(..) => "filter",
            Topo::Scan(..) => "scan",
            Topo::Take(..) => "take",
            Topo::Skip(..) => "skip",
            Topo::Merge(_) => "merge",
            Topo::Concat(_) => "concat",
            Topo::Combine(_) => "combine",
            Topo::Flatten { .. } => "flatten",
            Topo::FlatMap { .. } => "flatmap",
            Topo::Share(_) => "share",
            Topo::Diamond(..) => "diamond",
        }
    }
    pub fn visit<'a>(&'a self, f: &mut dyn FnMut(&'a Topo)) {
        f(self);
        for c in self.children() {
            c.visit(f);
        }
    }
    pub fn contains(&self, name: &str) -> bool {
        let mut found = false;
        self.visit(&mut |t| {
            if t.op_name() == name {
                found = true
            }
        });
        found
    }
    pub fn size(&self) -> usize {
        let mut n = 0;
        self.visit(&mut |_| n += 1);
        n
    }
    /// path of operator names from the root down to puppet `p` (None if absent)
    pub fn path_to(&self, p: u8) -> Option<Vec<&'static str>> {
        match self {
            Topo::Puppet(id) if *id == p => return Some(vec![]),
            Topo::Flatten { outer, .. } if *outer == p => return Some(vec!["flatten"]),
            _ => {}
        }
        for c in self.children() {
            if let Some(mut v) = c.path_to(p) {
                v.insert(0, self.op_name());
                return Some(v);
            }
        }
        None
    }
}

fn pup_weight(p: &PuppetSpec) -> usize {
    p.late as usize
        + p.burst.len() * 2
        + p.max_items as usize
        + (p.finale != Finale::End) as usize
        + p.reply.iter().map(|r| match r { Reply::Ignore => 1, Reply::SyncEnd => 3, _ => 2 }).sum::<usize>()
        + (p.reply_default != Reply::Ignore) as usize
}

fn sink_weight(s: &SinkSpec) -> usize {
    s.react.iter().map(|r| if *r == React::Nothing { 1 } else { 2 }).sum::<usize>()
        + (s.react_default != React::Nothing) as usize
}

/// Structural shrink candidates, roughly from most to least aggressive. Every candidate is strictly
/// smaller by a well-founded measure, so minimisation terminates.
pub fn shrink_candidates(sc: &Scenario) -> Vec<Scenario> {
    let mut out = vec![];
    let n = sc.schedule.len();
    // drop the tail / halves / single steps
    let mut chunk = n;
    while chunk >= 1 {
        let mut start = 0;
        while start + chunk <= n {
            let mut c = sc.clone();
            c.schedule.drain(start..start + chunk);
            out.push(c);
            start += chunk;
        }
        if chunk == 1 {
            break;
        }
        chunk /= 2;
    }
    // topology
    for t in topo_shrinks(&sc.topo) {
        let mut c = sc.clone();
        c.topo = t;
        if !matches!(c.topo, Topo::Combine(_)) {
            c.root_tuple = false;
        }
        out.push(c);
    }
    // puppets
    for (i, p) in sc.puppets.iter().enumerate() {
        let mut push = |q: PuppetSpec| {
            if pup_weight(&q) < pup_weight(p) {
                let mut c = sc.clone();
                c.puppets[i] = q;
                out.push(c);
            }
        };
        push(PuppetSpec { max_items: p.max_items, ..Default::default() });
        push(PuppetSpec { burst: vec![], ..p.clone() });
        for k in 0..p.burst.len() {
            let mut q = p.clone();
            q.burst.remove(k);
            push(q);
        }
        push(PuppetSpec { reply: vec![], ..p.clone() });
        for k in 0..p.reply.len() {
            let mut q = p.clone();
            q.reply.remove(k);
            push(q);
            let mut q = p.clone();
            q.reply[k] = Reply::Ignore;
            push(q);
        }
        push(PuppetSpec { reply_default: Reply::Ignore, ..p.clone() });
        push(PuppetSpec { late: false, ..p.clone() });
        push(PuppetSpec { finale: Finale::End, ..p.clone() });
        if p.max_items > 0 {
            push(PuppetSpec { max_items: p.max_items - 1, ..p.clone() });
            push(PuppetSpec { max_items: 0, ..p.clone() });
        }
    }
    // sinks
    for (i, s) in sc.sinks.iter().enumerate() {
        let mut push = |q: SinkSpec| {
            if sink_weight(&q) < sink_weight(s) {
                let mut c = sc.clone();
                c.sinks[i] = q;
                out.push(c);
            }
        };
        push(SinkSpec { react: vec![], react_default: React::Nothing, credit: s.credit, pull_after_end: s.pull_after_end, rogue: s.rogue });
        push(SinkSpec { react: vec![], ..s.clone() });
        push(SinkSpec { react_default: React::Nothing, ..s.clone() });
        for k in 0..s.react.len() {
            let mut q = s.clone();
            q.react.remove(k);
            push(q);
            let mut q = s.clone();
            q.react[k] = React::Nothing;
            push(q);
        }
    }
    // drop trailing unused sinks
    if sc.sinks.len() > 1 {
        let last = (sc.sinks.len() - 1) as u8;
        if !sc.schedule.iter().any(|s| matches!(s, Step::Sink { s, .. } if *s == last)) {
            let mut c = sc.clone();
            c.sinks.pop();
            out.push(c);
        }
    }
    out
}

fn topo_shrinks(t: &Topo) -> Vec<Topo> {
    let mut out = vec![];
    // replace the node by one of its children (every node of the tree yields i64)
    if !matches!(t, Topo::Share(_) | Topo::Diamond(..)) {
        for c in t.children() {
            out.push(c.clone());
        }
    }
    match t {
        Topo::Merge(ts) | Topo::Concat(ts) | Topo::Combine(ts) => {
            if ts.len() > 1 {
                for i in 0..ts.len() {
                    let mut v = ts.clone();
                    v.remove(i);
                    out.push(match t {
                        Topo::Merge(_) => Topo::Merge(v),
                        Topo::Concat(_) => Topo::Concat(v),
                        _ => Topo::Combine(v),
                    });
                }
            }
        }
        Topo::Flatten { outer, inners, order } => {
            if !order.is_empty() {
                let mut o = order.clone();
                o.pop();
                out.push(Topo::Flatten { outer: *outer, inners: inners.clone(), order: o });
            } else if !inners.is_empty() {
                let mut v = inners.clone();
                v.pop();
                out.push(Topo::Flatten { outer: *outer, inners: v, order: vec![] });
            }
        }
        Topo::FlatMap { outer, inners } => {
            if inners.len() > 1 {
                let mut v = inners.clone();
                v.pop();
                out.push(Topo::FlatMap { outer: outer.clone(), inners: v });
            }
        }
        _ => {}
    }
    // parameters
    match t {
        Topo::Take(n, c) if *n > 1 => out.push(Topo::Take(n - 1, c.clone())),
        Topo::Skip(n, c) if *n > 0 => out.push(Topo::Skip(n - 1, c.clone())),
        Topo::FromIter { leaf, n } if *n > 0 => out.push(Topo::FromIter { leaf: *leaf, n: n - 1 }),
        _ => {}
    }
    // recurse into children
    let rebuild = |idx: usize, new: Topo| -> Topo {
        match t {
            Topo::Map(f, _) => Topo::Map(*f, Box::new(new)),
            Topo::Filter(f, _) => Topo::Filter(*f, Box::new(new)),
            Topo::Scan(f, s, _) => Topo::Scan(*f, *s, Box::new(new)),
            Topo::Take(n, _) => Topo::Take(*n, Box::new(new)),
            Topo::Skip(n, _) => Topo::Skip(*n, Box::new(new)),
            Topo::Share(_) => Topo::Share(Box::new(new)),
            Topo::Diamond(f, q, _) => Topo::Diamond(*f, *q, Box::new(new)),
            Topo::Merge(ts) => {
                let mut v = ts.clone();
                v[idx] = new;
                Topo::Merge(v)
            }
            Topo::Concat(ts) => {
                let mut v = ts.clone();
                v[idx] = new;
                Topo::Concat(v)
            }
            Topo::Combine(ts) => {
                let mut v = ts.clone();
                v[idx] = new;
                Topo::Combine(v)
            }
            Topo::Flatten { outer, inners, order } => {
                let mut v = inners.clone();
                v[idx] = new;
                Topo::Flatten { outer: *outer, inners: v, order: order.clone() }
            }
            Topo::FlatMap { outer, inners } => {
                if idx == 0 {
                    Topo::FlatMap { outer: Box::new(new), inners: inners.clone() }
                } else {
                    let mut v = inners.clone();
                    v[idx - 1] = new;
                    Topo::FlatMap { outer: outer.clone(), inners: v }
                }
            }
            Topo::Puppet(_) | Topo::FromIter { .. } => unreachable!(),
        }
    };
    for (i, c) in t.children().into_iter().enumerate() {
        for s in topo_shrinks(c) {
            out.push(rebuild(i, s));
        }
    }
    out
}

/// Greedy structural minimisation under `still_fails`. After a successful step the scan continues
/// at the same candidate index (earlier candidates just failed on a near-identical scenario); it
/// stops after one complete pass without progress.
pub fn minimise(sc: &Scenario, mut still_fails: impl FnMut(&Scenario) -> bool, budget: usize) -> Scenario {
    let mut cur = sc.clone();
    let mut evals = 0usize;
    let mut start = 0usize;
    let mut since_progress = 0usize;
    loop {
        let cands = shrink_candidates(&cur);
        if cands.is_empty() {
            break;
        }
        let n = cands.len();
        let mut adopted = None;
        for off in 0..n {
            let j = (start + off) % n;
            if evals >= budget {
                return cur;
            }
            evals += 1;
            since_progress += 1;
            if still_fails(&cands[j]) {
                adopted = Some(j);
                break;
            }
            if since_progress > n {
                break;
            }
        }
        match adopted {
            Some(j) => {
                cur = cands[j].clone();
                start = j;
                since_progress = 0;
            }
            None => break,
        }
    }
    if std::env::var_os("CBV_DEBUG_MIN").is_some() {
        eprintln!("minimise: {evals} evals");
    }
    cur
}
