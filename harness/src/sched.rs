//! `sched` engine (C18, C19): member threads run on real OS threads, but a lock-step scheduler lets
//! exactly one of them run between two yield points. Yield points are (a) every access to shared
//! operator state in merge.rs / combine.rs / take.rs (through the cfg-guarded hook of the crate) and
//! (b) harness points (before a member send, on entering and on leaving a sink handler). The schedule
//! is data: generated at random by proptest, or enumerated depth-first.

use crate::hist::{Fnv, M, Val};
use crate::oracle::{finding, Finding};
use crate::run::{Engine, Outcome};
use callbag::{Message, Sink, Source};
use serde::{Deserialize, Serialize};
use std::cell::RefCell;
use std::panic::{self, AssertUnwindSafe};
use std::sync::atomic::{AtomicBool, AtomicU32, Ordering};
use std::sync::{Arc, Condvar, Mutex};

type Src<T> = Arc<Source<T>>;

// ------------------------------------------------------------------ scheduler

#[derive(Clone, Debug)]
pub enum Choices {
    /// exact choice indices (depth-first enumeration)
    Index(Vec<u16>),
    /// scaled bytes (random generation; shorter = fewer preemptions)
    Bytes(Vec<u8>),
}

#[derive(Clone, Debug, PartialEq, Eq, Hash, Serialize, Deserialize)]
pub enum What {
    SinkRecv(M),
    MemberRecv(u8, M),
    MemberSend(u8, M),
    TapDown(M),
    TapUp(M),
}

#[derive(Clone, Debug, PartialEq, Eq, Hash, Serialize, Deserialize)]
pub struct SEv {
    pub tid: u8,
    pub enter: bool,
    pub what: What,
}

struct St {
    current: usize,
    alive: Vec<bool>,
    choices: Choices,
    pos: usize,
    taken: Vec<(u16, u16)>,
    preemptions: u32,
    max_preemptions: Option<u32>,
    hook_switches: u32,
    last_hook_tid: Option<usize>,
    log: Vec<SEv>,
    panics: Vec<String>,
    finished: usize,
    stuck: bool,
}

pub struct Session {
    st: Mutex<St>,
    cv: Condvar,
}

thread_local! {
    static CTX: RefCell<Option<(Arc<Session>, usize)>> = const { RefCell::new(None) };
}

fn with_ctx<R>(f: impl FnOnce(&Arc<Session>, usize) -> R) -> Option<R> {
    CTX.with(|c| c.borrow().as_ref().map(|(s, t)| f(s, *t)))
}

pub fn install_crate_hook() {
    static ONCE: std::sync::Once = std::sync::Once::new();
    ONCE.call_once(|| {
        #[cfg(feature = "hooks")]
        callbag::verif::set_hook(Some(Arc::new(|_label: &'static str| {
            yield_point(true);
        })));
    });
}

impl St {
    fn next_choice(&mut self, arity: usize) -> usize {
        let c = match &self.choices {
            Choices::Index(v) => v.get(self.pos).copied().unwrap_or(0) as usize,
            Choices::Bytes(v) => (v.get(self.pos).copied().unwrap_or(0) as usize * arity) >> 8,
        };
        let c = c.min(arity - 1);
        self.pos += 1;
        self.taken.push((c as u16, arity as u16));
        c
    }
}

/// The running thread offers to hand over. `hook` = the point is inside an operator's shared-state section.
pub fn yield_point(hook: bool) {
    with_ctx(|sess, tid| {
        let mut st = sess.st.lock().unwrap_or_else(|e| e.into_inner());
        if st.stuck || !st.alive.get(tid).copied().unwrap_or(false) {
            return;
        }
        let mut cands = vec![tid];
        cands.extend((0..st.alive.len()).filter(|t| *t != tid && st.alive[*t]));
        if cands.len() > 1 {
            let allowed = if st.max_preemptions.map_or(false, |m| st.preemptions >= m) { 1 } else { cands.len() };
            let c = st.next_choice(allowed);
            if c != 0 {
                st.preemptions += 1;
                if hook {
                    st.hook_switches += 1;
                }
                st.current = cands[c];
                sess.cv.notify_all();
                while st.current != tid && !st.stuck {
                    st = sess.cv.wait(st).unwrap_or_else(|e| e.into_inner());
                }
            }
        }
        if hook {
            st.last_hook_tid = Some(tid);
        }
    });
}

fn log_ev(enter: bool, what: What) {
    with_ctx(|sess, tid| {
        let mut st = sess.st.lock().unwrap_or_else(|e| e.into_inner());
        st.log.push(SEv { tid: tid as u8, enter, what });
    });
}

fn finish_thread(sess: &Arc<Session>, tid: usize) {
    let mut st = sess.st.lock().unwrap_or_else(|e| e.into_inner());
    st.alive[tid] = false;
    st.finished += 1;
    let cands: Vec<usize> = (0..st.alive.len()).filter(|t| st.alive[*t]).collect();
    if !cands.is_empty() {
        let c = if cands.len() > 1 { st.next_choice(cands.len()) } else { 0 };
        st.current = cands[c];
    } else {
        st.current = usize::MAX;
    }
    sess.cv.notify_all();
}

// ------------------------------------------------------------------ pooled member threads (one pool per driving thread)

type Job = Box<dyn FnOnce() + Send>;

thread_local! {
    static POOL: RefCell<Vec<std::sync::mpsc::Sender<Job>>> = const { RefCell::new(Vec::new()) };
}

fn pool_submit(slot: usize, job: Job) {
    POOL.with(|p| {
        let mut p = p.borrow_mut();
        while p.len() <= slot {
            let (tx, rx) = std::sync::mpsc::channel::<Job>();
            std::thread::Builder::new()
                .stack_size(512 << 10)
                .spawn(move || {
                    while let Ok(job) = rx.recv() {
                        job();
                    }
                })
                .expect("spawn pooled thread");
            p.push(tx);
        }
        let _ = p[slot].send(job);
    });
}

fn pool_abandon() {
    POOL.with(|p| p.borrow_mut().clear());
}

// ------------------------------------------------------------------ shapes

#[derive(Clone, Copy, Debug, Serialize, Deserialize, PartialEq, Eq, Hash)]
pub enum Fin {
    End,
    Error,
    Nothing,
}

#[derive(Clone, Copy, Debug, Serialize, Deserialize, PartialEq, Eq, Hash)]
pub enum SOp {
    Merge,
    Combine,
    /// take(n) over merge! of the members
    TakeMerge(u8),
    /// take(n) directly over one source whose data are delivered from several threads
    TakeDirect(u8),
}

#[derive(Clone, Debug, Serialize, Deserialize, PartialEq, Eq, Hash)]
pub struct Shape {
    pub op: SOp,
    /// per member thread: number of data, then what
    pub members: Vec<(u8, Fin)>,
    /// merge only: members greet from their own threads instead of inside the subscribing call
    pub greet_on_thread: bool,
}

impl Shape {
    pub fn name(&self) -> String {
        let m: Vec<String> = self
            .members
            .iter()
            .map(|(d, f)| format!("{d}{}", match f { Fin::End => "e", Fin::Error => "x", Fin::Nothing => "" }))
            .collect();
        format!("{:?}[{}]{}", self.op, m.join(","), if self.greet_on_thread { "+lategreet" } else { "" })
    }
}

#[derive(Clone, Debug, Serialize, Deserialize, PartialEq)]
pub struct SchedCase {
    pub shape: Shape,
    pub schedule: Vec<u8>,
}

pub struct RunResult {
    pub log: Vec<SEv>,
    pub taken: Vec<(u16, u16)>,
    pub preemptions: u32,
    pub hook_switches: u32,
    pub panics: Vec<String>,
    pub stuck: bool,
    pub terminated_counts: Vec<u32>,
}

struct MemberState {
    sink: Mutex<Option<Arc<Sink<i64>>>>,
    terminated: AtomicBool,
    term_count: AtomicU32,
}

fn m_of(msg: &Message<i64, never::Never>) -> M {
    match msg {
        Message::Handshake(_) => M::Handshake,
        Message::Data(v) => M::Data(Val::I(*v)),
        Message::Pull => M::Pull,
        Message::Error(_) => M::Error(0),
        Message::Terminate => M::Terminate,
    }
}

fn m_of_up(msg: &Message<never::Never, i64>) -> M {
    match msg {
        Message::Handshake(_) => M::Handshake,
        Message::Data(_) => M::Data(Val::I(-1)),
        Message::Pull => M::Pull,
        Message::Error(_) => M::Error(0),
        Message::Terminate => M::Terminate,
    }
}

fn tuple_m<T: TupleVal>(msg: &Message<T, never::Never>) -> M {
    match msg {
        Message::Handshake(_) => M::Handshake,
        Message::Data(v) => M::Data(v.to_val()),
        Message::Pull => M::Pull,
        Message::Error(_) => M::Error(0),
        Message::Terminate => M::Terminate,
    }
}

pub trait TupleVal: Send + Sync + 'static {
    fn vals(&self) -> Vec<i64>;
    fn to_val(&self) -> Val {
        Val::T(self.vals())
    }
}
impl TupleVal for i64 {
    fn vals(&self) -> Vec<i64> {
        vec![*self]
    }
    fn to_val(&self) -> Val {
        Val::I(*self)
    }
}
impl TupleVal for (i64, i64) {
    fn vals(&self) -> Vec<i64> {
        vec![self.0, self.1]
    }
}
impl TupleVal for (i64, i64, i64) {
    fn vals(&self) -> Vec<i64> {
        vec![self.0, self.1, self.2]
    }
}

fn member_source(id: u8, ms: &Arc<MemberState>, greet_now: bool) -> Src<i64> {
    let ms = Arc::clone(ms);
    Arc::new(
        (move |message: Message<never::Never, i64>| {
            if let Message::Handshake(sink) = message {
                log_ev(true, What::MemberRecv(id, M::Handshake));
                *ms.sink.lock().unwrap_or_else(|e| e.into_inner()) = Some(Arc::clone(&sink));
                if greet_now {
                    greet(id, &ms);
                }
                log_ev(false, What::MemberRecv(id, M::Handshake));
            }
        })
        .into(),
    )
}

fn greet(id: u8, ms: &Arc<MemberState>) {
    let sink = ms.sink.lock().unwrap_or_else(|e| e.into_inner()).clone();
    let Some(sink) = sink else { return };
    let ms2 = Arc::clone(ms);
    let tb: Src<i64> = Arc::new(
        (move |message: Message<never::Never, i64>| {
            let m = m_of_up(&message);
            log_ev(true, What::MemberRecv(id, m.clone()));
            if m.is_terminal() {
                ms2.term_count.fetch_add(1, Ordering::SeqCst);
                ms2.terminated.store(true, Ordering::SeqCst);
            }
            log_ev(false, What::MemberRecv(id, m));
        })
        .into(),
    );
    log_ev(true, What::MemberSend(id, M::Handshake));
    sink(Message::Handshake(tb));
    log_ev(false, What::MemberSend(id, M::Handshake));
}

fn member_send(id: u8, ms: &Arc<MemberState>, msg: Message<i64, never::Never>) -> bool {
    yield_point(false);
    // conformance: a terminated source starts nothing new
    if ms.terminated.load(Ordering::SeqCst) {
        return false;
    }
    let sink = ms.sink.lock().unwrap_or_else(|e| e.into_inner()).clone();
    let Some(sink) = sink else { return false };
    let m = m_of(&msg);
    log_ev(true, What::MemberSend(id, m.clone()));
    sink(msg);
    log_ev(false, What::MemberSend(id, m));
    true
}

fn probe<T: TupleVal>() -> Arc<Sink<T>> {
    Arc::new(
        (move |message: Message<T, never::Never>| {
            let m = tuple_m(&message);
            log_ev(true, What::SinkRecv(m.clone()));
            yield_point(false);
            log_ev(false, What::SinkRecv(m));
            yield_point(false);
        })
        .into(),
    )
}

/// transparent tap between the fan-in and take
fn sched_tap(source: Src<i64>) -> Src<i64> {
    Arc::new(
        (move |message: Message<never::Never, i64>| {
            let Message::Handshake(sink) = message else { return };
            source(Message::Handshake(Arc::new(
                (move |message: Message<i64, never::Never>| {
                    let m = m_of(&message);
                    log_ev(true, What::TapDown(m.clone()));
                    match message {
                        Message::Handshake(up) => {
                            sink(Message::Handshake(Arc::new(
                                (move |message: Message<never::Never, i64>| {
                                    let m = m_of_up(&message);
                                    log_ev(true, What::TapUp(m.clone()));
                                    up(message);
                                    log_ev(false, What::TapUp(m));
                                })
                                .into(),
                            )));
                        }
                        other => sink(other),
                    }
                    log_ev(false, What::TapDown(m));
                })
                .into(),
            )));
        })
        .into(),
    )
}

pub fn value_of(member: usize, k: usize) -> i64 {
    (member as i64 + 1) * 100 + k as i64
}

pub fn run_schedule(shape: &Shape, choices: Choices, max_preemptions: Option<u32>) -> RunResult {
    install_crate_hook();
    crate::world::install_panic_hook();
    let n = shape.members.len();
    let sess = Arc::new(Session {
        st: Mutex::new(St {
            current: 0,
            alive: {
                let mut v = vec![false; n + 1];
                v[0] = true;
                v
            },
            choices,
            pos: 0,
            taken: vec![],
            preemptions: 0,
            max_preemptions,
            hook_switches: 0,
            last_hook_tid: None,
            log: vec![],
            panics: vec![],
            finished: 0,
            stuck: false,
        }),
        cv: Condvar::new(),
    });
    let direct = matches!(shape.op, SOp::TakeDirect(_));
    // in "direct" mode all threads share one member state (one source, one subscription)
    let states: Vec<Arc<MemberState>> = (0..if direct { 1 } else { n })
        .map(|_| {
            Arc::new(MemberState { sink: Mutex::new(None), terminated: AtomicBool::new(false), term_count: AtomicU32::new(0) })
        })
        .collect();
    let greet_now = !shape.greet_on_thread;
    // hand the member bodies to pooled threads (spawning threads per run is what dominated the cost)
    let done_rx: Vec<std::sync::mpsc::Receiver<()>> = (0..n)
        .map(|i| {
            let sess = Arc::clone(&sess);
            let st = Arc::clone(&states[if direct { 0 } else { i }]);
            let (n_data, fin) = shape.members[i];
            let late = shape.greet_on_thread;
            let (dtx, drx) = std::sync::mpsc::channel::<()>();
            let job: Job = Box::new(move || {
                let tid = i + 1;
                CTX.with(|c| *c.borrow_mut() = Some((Arc::clone(&sess), tid)));
                {
                    let mut g = sess.st.lock().unwrap_or_else(|e| e.into_inner());
                    while g.current != tid && !g.stuck {
                        g = sess.cv.wait(g).unwrap_or_else(|e| e.into_inner());
                    }
                }
                let id = if direct { 0 } else { i as u8 };
                let r = panic::catch_unwind(AssertUnwindSafe(|| {
                    if late {
                        yield_point(false);
                        greet(id, &st);
                    }
                    for k in 0..n_data as usize {
                        if !member_send(id, &st, Message::Data(value_of(i, k))) {
                            return;
                        }
                    }
                    match fin {
                        Fin::End => {
                            member_send(id, &st, Message::Terminate);
                        }
                        Fin::Error => {
                            let e: crate::world::ErrArc = Arc::new(crate::world::HErr(i as u32));
                            member_send(id, &st, Message::Error(e));
                        }
                        Fin::Nothing => {}
                    }
                }));
                if let Err(p) = r {
                    let (msg, loc) = crate::world::take_last_panic().unwrap_or((crate::world::payload_string(&p), String::new()));
                    sess.st.lock().unwrap_or_else(|e| e.into_inner()).panics.push(format!("{msg} @ {loc}"));
                }
                finish_thread(&sess, tid);
                CTX.with(|c| *c.borrow_mut() = None);
                let _ = dtx.send(());
            });
            pool_submit(i, job);
            drx
        })
        .collect();
    // main thread: build and subscribe
    CTX.with(|c| *c.borrow_mut() = Some((Arc::clone(&sess), 0)));
    let r = panic::catch_unwind(AssertUnwindSafe(|| {
        let srcs: Vec<Src<i64>> = states.iter().enumerate().map(|(i, s)| member_source(i as u8, s, greet_now)).collect();
        let merged = |srcs: &[Src<i64>]| -> Src<i64> {
            Arc::new(match srcs.len() {
                1 => callbag::merge!(srcs[0].clone()),
                2 => callbag::merge!(srcs[0].clone(), srcs[1].clone()),
                _ => callbag::merge!(srcs[0].clone(), srcs[1].clone(), srcs[2].clone()),
            })
        };
        match shape.op {
            SOp::Merge => merged(&srcs)(Message::Handshake(probe::<i64>())),
            SOp::Combine => match srcs.len() {
                2 => callbag::combine!(srcs[0].clone(), srcs[1].clone())(Message::Handshake(probe::<(i64, i64)>())),
                _ => callbag::combine!(srcs[0].clone(), srcs[1].clone(), srcs[2].clone())(Message::Handshake(probe::<(i64, i64, i64)>())),
            },
            SOp::TakeMerge(k) => {
                let t: Source<i64> = callbag::take(k as usize)(sched_tap(merged(&srcs)));
                t(Message::Handshake(probe::<i64>()))
            }
            SOp::TakeDirect(k) => {
                let t: Source<i64> = callbag::take(k as usize)(sched_tap(srcs[0].clone()));
                t(Message::Handshake(probe::<i64>()))
            }
        }
    }));
    if let Err(p) = r {
        let (msg, loc) = crate::world::take_last_panic().unwrap_or((crate::world::payload_string(&p), String::new()));
        sess.st.lock().unwrap_or_else(|e| e.into_inner()).panics.push(format!("{msg} @ {loc}"));
    }
    // let the members go
    {
        let mut st = sess.st.lock().unwrap_or_else(|e| e.into_inner());
        for t in 1..=n {
            st.alive[t] = true;
        }
    }
    finish_thread(&sess, 0);
    CTX.with(|c| *c.borrow_mut() = None);
    // wait for completion with a watchdog
    {
        let mut st = sess.st.lock().unwrap_or_else(|e| e.into_inner());
        let deadline = std::time::Instant::now() + std::time::Duration::from_secs(20);
        while st.finished < n + 1 {
            let (g, to) = sess.cv.wait_timeout(st, std::time::Duration::from_millis(200)).unwrap_or_else(|e| e.into_inner());
            st = g;
            if to.timed_out() && std::time::Instant::now() > deadline {
                st.stuck = true;
                sess.cv.notify_all();
                break;
            }
        }
    }
    let was_stuck = sess.st.lock().unwrap_or_else(|e| e.into_inner()).stuck;
    for rx in done_rx {
        if was_stuck {
            // the job may never return: abandon that pooled thread
            if rx.recv_timeout(std::time::Duration::from_millis(200)).is_err() {
                pool_abandon();
            }
        } else {
            let _ = rx.recv();
        }
    }
    let st = sess.st.lock().unwrap_or_else(|e| e.into_inner());
    RunResult {
        log: st.log.clone(),
        taken: st.taken.clone(),
        preemptions: st.preemptions,
        hook_switches: st.hook_switches,
        panics: st.panics.clone(),
        stuck: st.stuck,
        terminated_counts: states.iter().map(|s| s.term_count.load(Ordering::SeqCst)).collect(),
    }
}

// ------------------------------------------------------------------ oracles

pub fn render(log: &[SEv]) -> String {
    let mut s = String::new();
    for e in log {
        let w = match &e.what {
            What::SinkRecv(m) => format!("sink<{}", m.short()),
            What::MemberRecv(i, m) => format!("m{i}<{}", m.short()),
            What::MemberSend(i, m) => format!("m{i}>{}", m.short()),
            What::TapDown(m) => format!("tapv{}", m.short()),
            What::TapUp(m) => format!("tap^{}", m.short()),
        };
        s.push_str(&format!("t{}{}{} ", e.tid, if e.enter { "+" } else { "-" }, w));
    }
    s
}

pub fn judge(shape: &Shape, r: &RunResult) -> Vec<Finding> {
    let mut out = vec![];
    let c19 = matches!(shape.op, SOp::TakeMerge(_) | SOp::TakeDirect(_));
    let prop: &'static str = if c19 { "C19" } else { "C18" };
    for p in &r.panics {
        let file = p.rsplit('/').next().unwrap_or("").to_string();
        out.push(finding(prop, format!("{prop}:panic@{file}"), format!("a thread panicked: {p}"), 0));
        out.push(finding("C17", format!("C17:panic@{file}"), format!("a thread panicked: {p}"), 0));
    }
    if !r.panics.is_empty() || r.stuck {
        return out;
    }
    let sink_enters: Vec<(usize, &SEv)> =
        r.log.iter().enumerate().filter(|(_, e)| e.enter && matches!(e.what, What::SinkRecv(_))).collect();
    let msgs: Vec<&M> = sink_enters.iter().map(|(_, e)| if let What::SinkRecv(m) = &e.what { m } else { unreachable!() }).collect();
    let n_hs = msgs.iter().filter(|m| ***m == M::Handshake).count();
    if n_hs != 1 {
        out.push(finding(prop, format!("{prop}:handshakes"), format!("the sink was greeted {n_hs} times"), 0));
    }
    if msgs.first().map_or(false, |m| **m != M::Handshake) {
        out.push(finding(prop, format!("{prop}:not-greeted-first"), "the first message at the sink was not the handshake".to_string(), 0));
    }
    let terminals: Vec<(usize, &M)> = sink_enters
        .iter()
        .filter_map(|(i, e)| if let What::SinkRecv(m) = &e.what { if m.is_terminal() { Some((*i, m)) } else { None } } else { None })
        .collect();
    let sent = |member: usize| -> Vec<i64> {
        r.log
            .iter()
            .filter_map(|e| match &e.what {
                What::MemberSend(i, M::Data(Val::I(v))) if e.enter && *i as usize == member => Some(*v),
                _ => None,
            })
            .collect()
    };
    let n = shape.members.len();
    let any_error = shape.members.iter().any(|m| m.1 == Fin::Error);
    match shape.op {
        SOp::Merge => {
            let got: Vec<i64> = msgs.iter().filter_map(|m| if let M::Data(Val::I(v)) = m { Some(*v) } else { None }).collect();
            for i in 0..n {
                let s = sent(i);
                let g: Vec<i64> = got.iter().copied().filter(|v| v / 100 == i as i64 + 1).collect();
                let ok = if any_error { s.starts_with(&g) || is_subsequence(&g, &s) } else { g == s };
                if !ok || has_dup(&g) {
                    out.push(finding("C18", "C18:merge-data", format!("member {i} sent {s:?} but the sink received {g:?} from it"), 0));
                }
            }
            expect_terminal(shape, r, &terminals, &sink_enters, any_error, &mut out);
        }
        SOp::Combine => {
            for (pos, e) in &sink_enters {
                let What::SinkRecv(M::Data(Val::T(t))) = &e.what else { continue };
                if t.len() != n {
                    out.push(finding("C18", "C18:tuple-incomplete", format!("tuple {t:?} does not have {n} components"), 0));
                    continue;
                }
                for (j, v) in t.iter().enumerate() {
                    // a value member j has begun sending before this delivery began
                    let begun: Vec<i64> = r.log[..*pos]
                        .iter()
                        .filter_map(|x| match &x.what {
                            What::MemberSend(i, M::Data(Val::I(v))) if x.enter && *i as usize == j => Some(*v),
                            _ => None,
                        })
                        .collect();
                    if !begun.contains(v) {
                        out.push(finding("C18", "C18:tuple-value-never-sent", format!("tuple {t:?}: component {j} is not a value member {j} had begun sending"), 0));
                    }
                }
                // the tuple delivered on member i's thread holds i's current datum
                let i = e.tid as usize - 1;
                let cur = r.log[..*pos].iter().rev().find_map(|x| match &x.what {
                    What::MemberSend(m, M::Data(Val::I(v))) if x.enter && x.tid == e.tid && *m as usize == i => Some(*v),
                    _ => None,
                });
                if cur.is_some() && cur != t.get(i).copied() {
                    out.push(finding("C18", "C18:tuple-own-slot-stale", format!("tuple {t:?} delivered on member {i}'s thread does not hold its current datum {cur:?}"), 0));
                }
            }
            if !any_error {
                expect_terminal(shape, r, &terminals, &sink_enters, false, &mut out);
            }
        }
        SOp::TakeMerge(k) | SOp::TakeDirect(k) => {
            let got: Vec<i64> = msgs.iter().filter_map(|m| if let M::Data(Val::I(v)) = m { Some(*v) } else { None }).collect();
            let total: usize = shape.members.iter().map(|m| m.0 as usize).sum();
            if got.len() > k as usize {
                out.push(finding("C19", "C19:over-delivery", format!("take({k}) delivered {} data: {got:?}", got.len()), 0));
            }
            if has_dup(&got) {
                out.push(finding("C19", "C19:duplicate", format!("take({k}) delivered a datum twice: {got:?}"), 0));
            }
            let n_term = terminals.iter().filter(|t| *t.1 == M::Terminate).count();
            if total >= k as usize && !any_error {
                if n_term != 1 {
                    out.push(finding("C19", "C19:sink-terminations", format!("take({k}) with {total} data available terminated its sink {n_term} times; data {got:?}"), 0));
                }
                let up_terms = r.log.iter().filter(|e| e.enter && matches!(&e.what, What::TapUp(m) if m.is_terminal())).count();
                if up_terms != 1 {
                    out.push(finding("C19", "C19:upstream-terminations", format!("take({k}) terminated its upstream {up_terms} times"), 0));
                }
            } else if n_term > 1 {
                out.push(finding("C19", "C19:sink-terminations", format!("the sink was terminated {n_term} times"), 0));
            }
            if let Some(c) = r.terminated_counts.iter().find(|c| **c > 1) {
                out.push(finding("C19", "C19:member-terminated-twice", format!("a member received {c} terminations"), 0));
            }
        }
    }
    out
}

fn is_subsequence(g: &[i64], s: &[i64]) -> bool {
    let mut it = s.iter();
    g.iter().all(|x| it.any(|y| y == x))
}

fn has_dup(v: &[i64]) -> bool {
    let mut s = v.to_vec();
    s.sort();
    s.windows(2).any(|w| w[0] == w[1])
}

fn expect_terminal(
    shape: &Shape,
    r: &RunResult,
    terminals: &[(usize, &M)],
    sink_enters: &[(usize, &SEv)],
    any_error: bool,
    out: &mut Vec<Finding>,
) {
    let all_end = shape.members.iter().all(|m| m.1 == Fin::End);
    if any_error {
        let errs = terminals.iter().filter(|t| matches!(t.1, M::Error(_))).count();
        let terms = terminals.iter().filter(|t| *t.1 == M::Terminate).count();
        if errs != 1 || terms != 0 {
            out.push(finding("C18", "C18:error-terminal", format!("one member failed: expected exactly one Error and no Terminate at the sink, saw {errs} / {terms}"), 0));
        }
        // the failure ends the output: the siblings are disposed before the sink is told, so no Data delivery
        // begins after the Error
        if let Some((epos, _)) = terminals.iter().find(|t| matches!(t.1, M::Error(_))) {
            if sink_enters.iter().any(|(i, e)| *i > *epos && matches!(e.what, What::SinkRecv(M::Data(_)))) {
                out.push(finding("C18", "C18:data-after-error", "a Data delivery began after the Error".to_string(), 0));
            }
        }
        return;
    }
    if all_end {
        if terminals.len() != 1 || *terminals[0].1 != M::Terminate {
            out.push(finding("C18", "C18:completion-count", format!("all members completed: expected exactly one Terminate, saw {:?}", terminals.iter().map(|t| t.1.short()).collect::<Vec<_>>()), 0));
            return;
        }
        let tpos = terminals[0].0;
        // after every data delivery has returned: no Data delivery open at that moment, none later
        let mut open = 0i32;
        for e in &r.log[..tpos] {
            if let What::SinkRecv(M::Data(_)) = e.what {
                open += if e.enter { 1 } else { -1 };
            }
        }
        if open != 0 {
            out.push(finding("C18", "C18:completion-during-delivery", "Terminate began while a Data delivery was still in progress on another thread".to_string(), 0));
        }
        if sink_enters.iter().any(|(i, e)| *i > tpos && matches!(e.what, What::SinkRecv(M::Data(_)))) {
            out.push(finding("C18", "C18:data-after-completion", "a Data delivery began after Terminate".to_string(), 0));
        }
    } else if !terminals.is_empty() {
        out.push(finding("C18", "C18:spurious-terminal", "the sink received a terminal although not every member completed".to_string(), 0));
    }
}

// ------------------------------------------------------------------ shapes catalogue, enumeration

pub fn shapes_for(prop: &str) -> Vec<Shape> {
    let mut v = vec![];
    let mk = |op, members: &[(u8, Fin)], late| Shape { op, members: members.to_vec(), greet_on_thread: late };
    if prop == "C18" {
        for op in [SOp::Merge, SOp::Combine] {
            v.push(mk(op, &[(1, Fin::End), (1, Fin::End)], false));
            v.push(mk(op, &[(2, Fin::End), (2, Fin::End)], false));
            v.push(mk(op, &[(1, Fin::End), (1, Fin::End), (1, Fin::End)], false));
            v.push(mk(op, &[(3, Fin::End), (2, Fin::End)], false));
            v.push(mk(op, &[(2, Fin::End), (1, Fin::Nothing)], false));
            v.push(mk(op, &[(2, Fin::End), (1, Fin::End), (2, Fin::End)], false));
        }
        v.push(mk(SOp::Merge, &[(1, Fin::Error), (2, Fin::End)], false));
        v.push(mk(SOp::Merge, &[(2, Fin::End), (1, Fin::Error), (1, Fin::End)], false));
        v.push(mk(SOp::Combine, &[(1, Fin::Error), (2, Fin::End)], false));
        v.push(mk(SOp::Merge, &[(1, Fin::End), (1, Fin::End)], true));
        v.push(mk(SOp::Merge, &[(2, Fin::End), (1, Fin::End), (1, Fin::End)], true));
    } else {
        for n in 1..=3u8 {
            v.push(mk(SOp::TakeMerge(n), &[(1, Fin::End), (1, Fin::End)], false));
            v.push(mk(SOp::TakeMerge(n), &[(2, Fin::End), (2, Fin::End)], false));
            v.push(mk(SOp::TakeMerge(n), &[(2, Fin::Nothing), (1, Fin::Nothing), (2, Fin::Nothing)], false));
            v.push(mk(SOp::TakeDirect(n), &[(1, Fin::Nothing), (1, Fin::Nothing)], false));
            v.push(mk(SOp::TakeDirect(n), &[(2, Fin::Nothing), (2, Fin::Nothing)], false));
            v.push(mk(SOp::TakeDirect(n), &[(2, Fin::Nothing), (1, Fin::Nothing), (1, Fin::Nothing)], false));
        }
    }
    v
}

pub struct EnumStats {
    pub runs: u64,
    pub complete: bool,
    pub nontrivial: u64,
    pub digests: std::collections::HashSet<u64>,
    pub violation: Option<(Vec<u16>, Finding)>,
    pub stuck: bool,
    pub sample: Option<String>,
}

pub fn digest_of(shape: &Shape, log: &[SEv]) -> u64 {
    let mut h = Fnv::new();
    h.str(&shape.name());
    for e in log {
        h.str(&format!("{e:?}"));
    }
    h.0
}

/// Depth-first enumeration of every schedule of `shape` with at most `bound` preemptions
/// (None = unbounded), restricted to schedules that start with `prefix`.
pub fn enumerate(
    shape: &Shape,
    bound: Option<u32>,
    prefix: &[u16],
    max_runs: u64,
    accept: &dyn Fn(&Finding) -> bool,
) -> EnumStats {
    let mut stats = EnumStats { runs: 0, complete: false, nontrivial: 0, digests: Default::default(), violation: None, stuck: false, sample: None };
    let mut choices: Vec<u16> = prefix.to_vec();
    loop {
        if stats.runs >= max_runs {
            return stats;
        }
        let r = run_schedule(shape, Choices::Index(choices.clone()), bound);
        stats.runs += 1;
        if r.stuck {
            stats.stuck = true;
            return stats;
        }
        if r.hook_switches > 0 {
            stats.nontrivial += 1;
            stats.digests.insert(digest_of(shape, &r.log));
            if stats.sample.is_none() {
                stats.sample = Some(render(&r.log));
            }
        }
        if let Some(f) = judge(shape, &r).into_iter().find(|f| accept(f)) {
            stats.violation = Some((r.taken.iter().map(|t| t.0).collect(), f));
            return stats;
        }
        // next schedule in depth-first order
        let mut t = r.taken;
        loop {
            match t.pop() {
                None => {
                    stats.complete = true;
                    return stats;
                }
                Some((c, a)) => {
                    if t.len() < prefix.len() {
                        stats.complete = true;
                        return stats;
                    }
                    if c + 1 < a {
                        choices = t.iter().map(|x| x.0).collect();
                        choices.push(c + 1);
                        break;
                    }
                }
            }
        }
    }
}

/// Splits the schedule space of `shape` into disjoint decision prefixes (for parallel enumeration).
pub fn partition(shape: &Shape, bound: Option<u32>, want: usize) -> Vec<Vec<u16>> {
    let mut work: std::collections::VecDeque<Vec<u16>> = Default::default();
    work.push_back(vec![]);
    let mut leaves = vec![];
    while work.len() + leaves.len() < want {
        let Some(p) = work.pop_front() else { break };
        let r = run_schedule(shape, Choices::Index(p.clone()), bound);
        match r.taken.get(p.len()) {
            None => leaves.push(p),
            Some((_, a)) => {
                for c in 0..*a {
                    let mut q = p.clone();
                    q.push(c);
                    work.push_back(q);
                }
            }
        }
    }
    leaves.extend(work);
    leaves
}

// ------------------------------------------------------------------ Engine impl for random schedules

pub struct SchedEngine {
    pub prop: &'static str,
}

impl Engine for SchedEngine {
    type Case = SchedCase;
    fn name(&self) -> &'static str {
        "sched"
    }
    fn decode(&self, bytes: &[u8]) -> SchedCase {
        let shapes = shapes_for(self.prop);
        let b = bytes.first().copied().unwrap_or(0) as usize;
        let shape = shapes[(b * shapes.len()) >> 8].clone();
        SchedCase { shape, schedule: bytes.get(1..).unwrap_or(&[]).to_vec() }
    }
    fn eval(&self, c: &SchedCase) -> Outcome {
        let r = run_schedule(&c.shape, Choices::Bytes(c.schedule.clone()), None);
        let findings = judge(&c.shape, &r);
        let mut harness_errors = vec![];
        if r.stuck {
            harness_errors.push("a scheduled session did not finish (watchdog)".to_string());
        }
        Outcome {
            findings,
            nontrivial: r.hook_switches > 0,
            digest: digest_of(&c.shape, &r.log),
            classes: vec![format!("shape:{}", c.shape.name()), format!("preemptions:{}", r.preemptions.min(6))],
            skipped_by_guard: 0,
            harness_errors,
        }
    }
    fn render(&self, c: &SchedCase) -> String {
        let r = run_schedule(&c.shape, Choices::Bytes(c.schedule.clone()), None);
        format!("{} :: {}", c.shape.name(), render(&r.log))
    }
    fn minimise(&self, c: &SchedCase, still_fails: &mut dyn FnMut(&SchedCase) -> bool) -> SchedCase {
        let mut cur = c.clone();
        // canonical form: replace scaled bytes by the exact decisions taken, then drop / zero decisions
        let mut budget = 600;
        'outer: loop {
            let mut cands = vec![];
            for i in (0..cur.schedule.len()).rev() {
                let mut s = cur.clone();
                s.schedule.truncate(i);
                cands.push(s);
            }
            for i in 0..cur.schedule.len() {
                if cur.schedule[i] != 0 {
                    let mut s = cur.clone();
                    s.schedule[i] = 0;
                    cands.push(s);
                }
            }
            for s in cands {
                if budget == 0 {
                    break 'outer;
                }
                budget -= 1;
                if s != cur && still_fails(&s) {
                    cur = s;
                    continue 'outer;
                }
            }
            break;
        }
        cur
    }
}
