//! `clock` engine (C16): `interval` on a virtual clock. The executor (mock Nurse + Timer) is owned
//! by the harness: tasks are polled only by the harness, a sleep completes exactly when the harness
//! fires that timer, and spawn failures are injected.

use crate::hist::*;
use crate::oracle::{self, finding, Ctx, Dir, Finding};
use crate::run::{Engine, Outcome};
use crate::scn::{self, Dec, React, Scenario, SinkSpec};
use crate::world::{self, Probe, SendKind, SinkDriver, Src, World, ERR_NURSE_CLOSED, ERR_NURSE_SPAWN};
use async_executors::Timer;
use async_nursery::{Nurse, NurseErr};
use callbag::Message;
use futures::future::BoxFuture;
use futures::task::{noop_waker, FutureObj};
use serde::{Deserialize, Serialize};
use std::collections::VecDeque;
use std::future::Future;
use std::panic::{self, AssertUnwindSafe};
use std::pin::Pin;
use std::sync::{Arc, Mutex};
use std::task::{Context, Poll};
use std::time::Duration;

/// periods in nanoseconds: whole milliseconds, fractional milliseconds, sub-millisecond, whole seconds a period with a
/// nanosecond part, the zero period and one nanosecond (far below any real latency: nothing may depend on the wall clock) (the timer must be asked for exactly the period, whatever its unit)
pub const PERIODS_NS: [u64; 10] = [10_000_000, 10_000_000, 15_000_000, 7_000_000, 30_000_000, 2_750_000, 999_000, 1_000_000_007, 0, 1];

#[derive(Clone, Copy, Debug, Serialize, Deserialize, PartialEq, Eq)]
pub enum SpawnPlan {
    Ok,
    ErrSpawn,
    ErrClosed,
}

#[derive(Clone, Copy, Debug, Serialize, Deserialize, PartialEq, Eq)]
pub enum CStep {
    /// subscribe a fresh probe to interval source `src`; first poll of the task inside nurse_obj or right after
    Subscribe { src: u8, spawn: SpawnPlan, inline_poll: bool },
    /// fire one of the timers that are due at the earliest deadline
    Fire { choice: u8 },
    Dispose { sub: u8, error: bool },
    Pull { sub: u8 },
}

#[derive(Clone, Debug, Serialize, Deserialize, PartialEq)]
pub struct ClockScn {
    /// index into PERIODS_NS per interval source
    pub periods: Vec<u8>,
    pub sinks: Vec<SinkSpec>,
    pub steps: Vec<CStep>,
}

struct TimerSt {
    deadline: u64,
    fired: bool,
    task: Option<usize>,
}

struct VInner {
    tasks: Vec<Option<FutureObj<'static, ()>>>,
    done: Vec<bool>,
    timers: Vec<TimerSt>,
    now: u64,
    plan: VecDeque<(SpawnPlan, bool)>,
    current: Option<usize>,
}

#[derive(Clone)]
pub struct VExec {
    inner: Arc<Mutex<VInner>>,
    world: Arc<World>,
}

impl std::fmt::Debug for VExec {
    fn fmt(&self, f: &mut std::fmt::Formatter<'_>) -> std::fmt::Result {
        write!(f, "VExec")
    }
}

struct VSleep {
    id: usize,
    inner: Arc<Mutex<VInner>>,
}

impl Future for VSleep {
    type Output = ();
    fn poll(self: Pin<&mut Self>, _cx: &mut Context<'_>) -> Poll<()> {
        let g = self.inner.lock().unwrap_or_else(|e| e.into_inner());
        if g.timers[self.id].fired {
            Poll::Ready(())
        } else {
            Poll::Pending
        }
    }
}

impl Timer for VExec {
    fn sleep(&self, dur: Duration) -> BoxFuture<'static, ()> {
        let (id, task) = {
            let mut g = self.inner.lock().unwrap_or_else(|e| e.into_inner());
            let deadline = g.now + dur.as_nanos() as u64;
            let task = g.current;
            g.timers.push(TimerSt { deadline, fired: false, task });
            (g.timers.len() - 1, task)
        };
        self.world.call(
            CallKind::ExecSleep,
            task.map_or(u16::MAX, |t| t as u16),
            vec![Val::I(dur.as_nanos() as i64)],
            None,
        );
        Box::pin(VSleep { id, inner: Arc::clone(&self.inner) })
    }
}

impl Nurse<()> for VExec {
    fn nurse_obj(&self, fut: FutureObj<'static, ()>) -> Result<(), NurseErr> {
        let (plan, inline) = {
            let mut g = self.inner.lock().unwrap_or_else(|e| e.into_inner());
            g.plan.pop_front().unwrap_or((SpawnPlan::Ok, false))
        };
        match plan {
            SpawnPlan::ErrSpawn => {
                self.world.call(CallKind::ExecSpawn, u16::MAX, vec![], Some(Val::I(-1)));
                Err(NurseErr::Spawn)
            }
            SpawnPlan::ErrClosed => {
                self.world.call(CallKind::ExecSpawn, u16::MAX, vec![], Some(Val::I(-2)));
                Err(NurseErr::Closed)
            }
            SpawnPlan::Ok => {
                let id = {
                    let mut g = self.inner.lock().unwrap_or_else(|e| e.into_inner());
                    g.tasks.push(Some(fut));
                    g.done.push(false);
                    g.tasks.len() - 1
                };
                self.world.call(CallKind::ExecSpawn, id as u16, vec![], Some(Val::I(0)));
                if inline {
                    self.poll_task(id);
                }
                Ok(())
            }
        }
    }
}

impl VExec {
    fn new(world: &Arc<World>) -> Self {
        VExec {
            inner: Arc::new(Mutex::new(VInner {
                tasks: vec![],
                done: vec![],
                timers: vec![],
                now: 0,
                plan: VecDeque::new(),
                current: None,
            })),
            world: Arc::clone(world),
        }
    }
    fn poll_task(&self, id: usize) {
        let (fut, prev) = {
            let mut g = self.inner.lock().unwrap_or_else(|e| e.into_inner());
            if g.done[id] {
                return;
            }
            let f = g.tasks[id].take();
            let prev = g.current;
            g.current = Some(id);
            (f, prev)
        };
        let Some(mut fut) = fut else {
            self.inner.lock().unwrap_or_else(|e| e.into_inner()).current = prev;
            return; // already being polled further up the stack
        };
        let waker = noop_waker();
        let mut cx = Context::from_waker(&waker);
        let r = Pin::new(&mut fut).poll(&mut cx);
        let mut g = self.inner.lock().unwrap_or_else(|e| e.into_inner());
        g.current = prev;
        match r {
            Poll::Ready(()) => {
                g.done[id] = true;
                drop(g);
                self.world.call(CallKind::ExecTaskDone, id as u16, vec![], None);
            }
            Poll::Pending => g.tasks[id] = Some(fut),
        }
    }
    /// tasks spawned but not yet polled once
    fn poll_unstarted(&self) {
        let ids: Vec<usize> = {
            let g = self.inner.lock().unwrap_or_else(|e| e.into_inner());
            (0..g.tasks.len())
                .filter(|i| !g.done[*i] && g.tasks[*i].is_some() && !g.timers.iter().any(|t| t.task == Some(*i)))
                .collect()
        };
        for id in ids {
            self.poll_task(id);
        }
    }
    fn fire(&self, choice: u8) -> bool {
        let pick = {
            let mut g = self.inner.lock().unwrap_or_else(|e| e.into_inner());
            let due: Vec<usize> = {
                let live: Vec<usize> = (0..g.timers.len())
                    .filter(|i| !g.timers[*i].fired && g.timers[*i].task.map_or(false, |t| !g.done[t]))
                    .collect();
                match live.iter().map(|i| g.timers[*i].deadline).min() {
                    None => vec![],
                    Some(d) => live.into_iter().filter(|i| g.timers[*i].deadline == d).collect(),
                }
            };
            if due.is_empty() {
                None
            } else {
                let k = due[(choice as usize * due.len()) >> 8];
                g.timers[k].fired = true;
                g.now = g.timers[k].deadline;
                Some((k, g.timers[k].task.unwrap()))
            }
        };
        match pick {
            None => false,
            Some((k, task)) => {
                self.world.call(CallKind::ExecFire, task as u16, vec![Val::I(k as i64)], None);
                self.poll_task(task);
                true
            }
        }
    }
    fn teardown(&self) {
        let mut g = self.inner.lock().unwrap_or_else(|e| e.into_inner());
        g.tasks.clear();
    }
}

pub fn decode_clock(bytes: &[u8]) -> ClockScn {
    let mut d = Dec::new(bytes);
    let n_src = 1 + d.below(3);
    let periods = (0..n_src).map(|_| d.below(PERIODS_NS.len()) as u8).collect();
    let n_sinks = 1 + d.below(4);
    let sinks = (0..n_sinks)
        .map(|_| match d.below(5) {
            0 => SinkSpec::default(),
            1 => SinkSpec { forget_tb: d.below(2) == 1, ..SinkSpec::default() },
            2 => {
                let k = d.below(5);
                let t = d.pick(&[React::Terminate, React::Error]);
                let mut react = vec![React::Nothing; k];
                react.push(t);
                SinkSpec { react, react_default: React::Nothing, credit: false, pull_after_end: false, rogue: false, forget_tb: false }
            }
            3 => SinkSpec { react: vec![], react_default: React::Pull, credit: false, pull_after_end: false, rogue: false, forget_tb: false },
            _ => {
                // a slow handler at some positions (0 = the Handshake handler): a timer expires while it runs
                let n = 1 + d.below(5);
                let react = (0..n).map(|_| if d.below(2) == 1 { React::Poke(d.u8()) } else { React::Nothing }).collect();
                let tail = d.pick(&[React::Nothing, React::Nothing, React::Terminate]);
                let mut react: Vec<React> = react;
                if tail != React::Nothing {
                    react.push(tail);
                }
                SinkSpec { react, react_default: React::Nothing, credit: false, pull_after_end: false, rogue: false, forget_tb: false }
            }
        })
        .collect();
    let mut steps = vec![CStep::Subscribe { src: 0, spawn: SpawnPlan::Ok, inline_poll: false }];
    let mut n_subs = 1u8;
    while d.more() && steps.len() < 40 {
        let k = d.below(12);
        let st = match k {
            0..=5 => CStep::Fire { choice: d.u8() },
            6 | 7 => {
                if n_subs >= 6 {
                    continue;
                }
                n_subs += 1;
                CStep::Subscribe {
                    src: d.below(n_src) as u8,
                    spawn: d.pick(&[SpawnPlan::Ok, SpawnPlan::Ok, SpawnPlan::Ok, SpawnPlan::ErrSpawn, SpawnPlan::ErrClosed]),
                    inline_poll: d.below(2) == 1,
                }
            }
            8 | 9 => CStep::Dispose { sub: d.below(n_subs as usize) as u8, error: d.below(3) == 2 },
            10 => CStep::Pull { sub: d.below(n_subs as usize) as u8 },
            _ => CStep::Fire { choice: d.u8() },
        };
        steps.push(st);
    }
    ClockScn { periods, sinks, steps }
}

fn dummy_scenario(cs: &ClockScn, n_subs: usize) -> Scenario {
    let mut sc = scn::decode(scn::Profile::SelfCheck, &[], 0);
    sc.puppets.clear();
    sc.sinks = (0..n_subs.max(1)).map(|i| cs.sinks[i % cs.sinks.len()].clone()).collect();
    sc
}

pub fn run_clock(cs: &ClockScn) -> (History, Vec<(u8, SpawnPlan)>) {
    world::install_panic_hook();
    let n_subs = cs.steps.iter().filter(|s| matches!(s, CStep::Subscribe { .. })).count();
    let sc = dummy_scenario(cs, n_subs);
    let w = World::new(&sc);
    let exec = VExec::new(&w);
    w.set_history_cap(world::HISTORY_CAP);
    {
        // a handler that takes its time: virtual time moves on to the next expiry while the handler is running
        let e = exec.clone();
        w.set_poke_hook(Some(Arc::new(move |k| {
            e.poll_unstarted();
            e.fire(k);
        })));
    }
    let sources: Vec<Src<usize>> = cs
        .periods
        .iter()
        .map(|p| Arc::new(callbag::interval(Duration::from_nanos(PERIODS_NS[*p as usize % PERIODS_NS.len()]), exec.clone())))
        .collect();
    let mut probes: Vec<Arc<Probe<usize>>> = vec![];
    let mut subs: Vec<(u8, SpawnPlan)> = vec![];
    for (k, step) in cs.steps.iter().enumerate() {
        let tag = match step {
            CStep::Subscribe { .. } => probes.len() as u8,
            CStep::Dispose { sub, .. } | CStep::Pull { sub } => *sub,
            CStep::Fire { .. } => 0,
        };
        {
            let mut g = w.lock();
            g.cur_tag = tag;
            g.stack.clear();
            g.log.push(Ev::Step { k, tag });
        }
        world::take_last_panic();
        let r = panic::catch_unwind(AssertUnwindSafe(|| match *step {
            CStep::Subscribe { src, spawn, inline_poll } => {
                let id = probes.len() as u8;
                let p = Probe::<usize>::new(id, &w, sc.sinks[id as usize % sc.sinks.len()].clone());
                probes.push(Arc::clone(&p));
                subs.push((src, spawn));
                exec.inner.lock().unwrap_or_else(|e| e.into_inner()).plan.push_back((spawn, inline_poll));
                let s = &sources[src as usize % sources.len()];
                s(Message::Handshake(p.sink()));
                exec.poll_unstarted();
            }
            CStep::Fire { choice } => {
                if !exec.fire(choice) {
                    w.lock().skipped_by_guard += 1;
                }
            }
            CStep::Dispose { sub, error } => {
                if let Some(p) = probes.get(sub as usize) {
                    p.send(if error { SendKind::Error } else { SendKind::Terminate });
                }
            }
            CStep::Pull { sub } => {
                if let Some(p) = probes.get(sub as usize) {
                    p.send(SendKind::Pull);
                }
            }
        }));
        if let Err(p) = r {
            let (message, location) = world::take_last_panic().unwrap_or((world::payload_string(&p), String::new()));
            w.lock().log.push(Ev::Panic { message, location });
            break;
        }
    }
    exec.teardown();
    (w.into_history(), subs)
}

/// Expected events per subscription, from the model: sleep, (fire -> Data(k), sleep)*, and after a
/// visible disposal: fire -> task done.
pub fn c16(cs: &ClockScn, h: &History, subs: &[(u8, SpawnPlan)]) -> Vec<Finding> {
    let mut out = vec![];
    if !h.panics().is_empty() {
        return out;
    }
    let sc = dummy_scenario(cs, subs.len());
    let cx = Ctx::new(&sc, h);
    // map subscription -> task id (tasks are numbered in spawn order among successful spawns)
    let mut task_of: Vec<Option<u16>> = vec![];
    let mut next_task = 0u16;
    for (_, plan) in subs {
        if *plan == SpawnPlan::Ok {
            task_of.push(Some(next_task));
            next_task += 1;
        } else {
            task_of.push(None);
        }
    }
    for (si, (src, plan)) in subs.iter().enumerate() {
        let Some(sub) = cx.subs.iter().find(|s| s.sink == si as u8) else { continue };
        let edge = cx.probe_edge(sub);
        let downs: Vec<&M> = edge.iter().filter(|e| e.dir == Dir::Down).map(|e| &e.msg).collect();
        let period_ns = PERIODS_NS[cs.periods[*src as usize % cs.periods.len()] as usize % PERIODS_NS.len()] as i64;
        match plan {
            SpawnPlan::ErrSpawn | SpawnPlan::ErrClosed => {
                let want = if *plan == SpawnPlan::ErrSpawn { ERR_NURSE_SPAWN } else { ERR_NURSE_CLOSED };
                if downs != vec![&M::Error(want)] {
                    out.push(finding(
                        "C16",
                        "C16:spawn-failure",
                        format!("subscription {si}: the task could not be spawned ({plan:?}); the sink must receive exactly one Error carrying that NurseErr and nothing else; it received {:?}", downs.iter().map(|m| m.short()).collect::<Vec<_>>()),
                        sub.attach_at,
                    ));
                }
                continue;
            }
            SpawnPlan::Ok => {}
        }
        let task = task_of[si].unwrap();
        // greeted inside the subscribing call
        match sub.greeted_at {
            Some(g) if !h.log[sub.attach_at..g].iter().any(|e| matches!(e, Ev::Step { .. })) => {}
            other => out.push(finding("C16", "C16:not-greeted", format!("subscription {si} was not greeted inside the subscribing call ({other:?})"), sub.attach_at)),
        }
        // replay the model over this task's executor events and the probe's deliveries
        let disposed_at = sub.disposed_at.as_ref().map(|d| d.0);
        let mut expect_k: i64 = 0;
        let mut sleeping = false;
        let mut done = false;
        let mut i = 0usize;
        let log = &h.log;
        let mut problems: Vec<String> = vec![];
        while i < log.len() {
            match &log[i] {
                Ev::Call { kind: CallKind::ExecSleep, id, arg, .. } if *id == task => {
                    if done {
                        problems.push(format!("a sleep was requested at #{i} after the task should have finished (leaked timer)"));
                    }
                    if sleeping {
                        problems.push(format!("a second sleep was requested at #{i} while one was pending"));
                    }
                    if arg.first() != Some(&Val::I(period_ns)) {
                        problems.push(format!("sleep({arg:?}) at #{i} is not the period {period_ns} ns"));
                    }
                    sleeping = true;
                }
                Ev::Call { kind: CallKind::ExecFire, id, .. } if *id == task => {
                    if !sleeping {
                        problems.push(format!("fire at #{i} without a pending sleep"));
                    }
                    sleeping = false;
                    // events of this poll: up to the next Step or end
                    let end = log[i + 1..].iter().position(|e| matches!(e, Ev::Step { .. })).map_or(log.len(), |p| i + 1 + p);
                    let visible = disposed_at.map_or(false, |d| d < i);
                    let datas: Vec<&M> = log[i + 1..end]
                        .iter()
                        .filter_map(|e| match e {
                            Ev::Enter(Site::SinkRecv { sink, msg, .. }) if *sink == si as u8 => Some(msg),
                            _ => None,
                        })
                        .collect();
                    let task_done = log[i + 1..end].iter().any(|e| matches!(e, Ev::Call { kind: CallKind::ExecTaskDone, id, .. } if *id == task));
                    let slept_again = log[i + 1..end].iter().any(|e| matches!(e, Ev::Call { kind: CallKind::ExecSleep, id, .. } if *id == task));
                    if visible {
                        if !datas.is_empty() {
                            problems.push(format!("tick at #{i}: the sink had disposed, yet it received {:?}", datas.iter().map(|m| m.short()).collect::<Vec<_>>()));
                        }
                        if !task_done || slept_again {
                            problems.push(format!("tick at #{i}: after a visible disposal the task must finish at this wake-up without another sleep (done={task_done}, slept_again={slept_again})"));
                        }
                        done = true;
                    } else {
                        if datas != vec![&M::Data(Val::I(expect_k))] {
                            problems.push(format!("tick at #{i}: expected exactly Data({expect_k}), the sink received {:?}", datas.iter().map(|m| m.short()).collect::<Vec<_>>()));
                        }
                        expect_k += 1;
                        if task_done || !slept_again {
                            problems.push(format!("tick at #{i}: the task must request the next sleep (done={task_done}, slept_again={slept_again})"));
                        }
                    }
                }
                _ => {}
            }
            i += 1;
        }
        // nothing but the handshake and the ticks ever reaches the sink
        let n_data = downs.iter().filter(|m| m.is_data()).count() as i64;
        if n_data != expect_k || downs.iter().any(|m| m.is_terminal()) {
            problems.push(format!("the sink received {:?} in total; expected the handshake and Data(0..{expect_k})", downs.iter().map(|m| m.short()).collect::<Vec<_>>()));
        }
        if let Some(p) = problems.first() {
            out.push(finding("C16", "C16:tick-model", format!("subscription {si} (period {period_ns} ns): {p}"), sub.attach_at));
        }
    }
    out
}

pub struct ClockEngine {
    pub prop: &'static str,
}

impl Engine for ClockEngine {
    type Case = ClockScn;
    fn name(&self) -> &'static str {
        "clock"
    }
    fn decode(&self, bytes: &[u8]) -> ClockScn {
        decode_clock(bytes)
    }
    fn eval(&self, cs: &ClockScn) -> Outcome {
        let (h, subs) = run_clock(cs);
        let sc = dummy_scenario(cs, subs.len());
        let cx = Ctx::new(&sc, &h);
        let mut findings = c16(cs, &h, &subs);
        // the protocol monitors on interval (with the sanctioned exception of C01 for a refused subscription)
        let refused: Vec<u8> = subs.iter().enumerate().filter(|(_, s)| s.1 != SpawnPlan::Ok).map(|(i, _)| i as u8).collect();
        for f in oracle::c01(&cx) {
            let is_refused = refused.iter().any(|r| f.detail.contains(&format!("probe s{r}.")));
            if !(is_refused && f.sig == "C01:Error-before-handshake") {
                findings.push(f);
            }
        }
        findings.extend(oracle::c02(&cx));
        findings.extend(oracle::c03(&cx));
        findings.extend(oracle::c17(&cx));
        let disposed_between = cx.subs.iter().any(|s| s.disposed_at.is_some() && !cx.probe_data(s).is_empty());
        let fires: Vec<u16> = h
            .log
            .iter()
            .filter_map(|e| if let Ev::Call { kind: CallKind::ExecFire, id, .. } = e { Some(*id) } else { None })
            .collect();
        let interleaved = fires.windows(2).filter(|w| w[0] != w[1]).count() >= 2;
        let nontrivial = interleaved || disposed_between || !refused.is_empty();
        let mut classes = vec![format!("subs:{}", subs.len())];
        if !refused.is_empty() {
            classes.push("spawn_failure".into());
        }
        if interleaved {
            classes.push("interleaved_expiries".into());
        }
        if disposed_between {
            classes.push("disposed_after_ticks".into());
        }
        if nested_dispose(&cx) {
            classes.push("disposed_inside_tick".into());
        }
        Outcome {
            findings,
            nontrivial,
            digest: h.digest(),
            classes,
            skipped_by_guard: h.skipped_by_guard,
            harness_errors: h.harness_errors.clone(),
        }
    }
    fn render(&self, cs: &ClockScn) -> String {
        run_clock(cs).0.render()
    }
    fn minimise(&self, cs: &ClockScn, still_fails: &mut dyn FnMut(&ClockScn) -> bool) -> ClockScn {
        let mut cur = cs.clone();
        let mut budget = 3000;
        'outer: loop {
            let mut cands = vec![];
            for i in (1..cur.steps.len()).rev() {
                let mut c = cur.clone();
                // removing a Subscribe renumbers later subscriptions: only drop it when it is the last one
                if matches!(c.steps[i], CStep::Subscribe { .. })
                    && c.steps[i + 1..].iter().any(|s| matches!(s, CStep::Subscribe { .. } | CStep::Dispose { .. } | CStep::Pull { .. }))
                {
                    continue;
                }
                c.steps.remove(i);
                cands.push(c);
            }
            for i in 0..cur.sinks.len() {
                if cur.sinks[i] != SinkSpec::default() {
                    let mut c = cur.clone();
                    c.sinks[i] = SinkSpec::default();
                    cands.push(c);
                }
            }
            for i in 0..cur.steps.len() {
                if let CStep::Subscribe { src, spawn, inline_poll: true } = cur.steps[i] {
                    let mut c = cur.clone();
                    c.steps[i] = CStep::Subscribe { src, spawn, inline_poll: false };
                    cands.push(c);
                }
            }
            for c in cands {
                if budget == 0 {
                    break 'outer;
                }
                budget -= 1;
                if still_fails(&c) {
                    cur = c;
                    continue 'outer;
                }
            }
            break;
        }
        cur
    }
}

fn nested_dispose(cx: &Ctx) -> bool {
    cx.ix.spans.iter().enumerate().any(|(i, s)| {
        matches!(&s.site, Site::SinkSend { msg, .. } if msg.is_terminal())
            && cx.ix.enclosing(i, |p| matches!(p.site, Site::SinkRecv { msg: M::Data(_), .. })).is_some()
    })
}
