//! The history: one nested event log per scenario. Every harness-owned actor appends to it; every
//! oracle is a pure function of it.

use serde::{Deserialize, Serialize};

#[derive(Clone, Debug, PartialEq, Eq, Hash, Serialize, Deserialize, PartialOrd, Ord)]
pub enum Val {
    I(i64),
    T(Vec<i64>),
    /// the k-th inner source handed out by an outer puppet / a flat-map closure
    Src(u16),
}

#[derive(Clone, Debug, PartialEq, Eq, Hash, Serialize, Deserialize)]
pub enum M {
    Handshake,
    Data(Val),
    Pull,
    /// id of the error in the harness registry (u32::MAX = an error object the harness never made)
    Error(u32),
    Terminate,
}

impl M {
    pub fn is_terminal(&self) -> bool {
        matches!(self, M::Error(_) | M::Terminate)
    }
    pub fn is_data(&self) -> bool {
        matches!(self, M::Data(_))
    }
    pub fn kind(&self) -> &'static str {
        match self {
            M::Handshake => "Handshake",
            M::Data(_) => "Data",
            M::Pull => "Pull",
            M::Error(_) => "Error",
            M::Terminate => "Terminate",
        }
    }
    pub fn short(&self) -> String {
        match self {
            M::Handshake => "H".into(),
            M::Data(Val::I(v)) => format!("D{v}"),
            M::Data(Val::T(v)) => format!("D{v:?}"),
            M::Data(Val::Src(k)) => format!("Dsrc{k}"),
            M::Pull => "P".into(),
            M::Error(e) => format!("E{e}"),
            M::Terminate => "T".into(),
        }
    }
}

#[derive(Clone, Debug, PartialEq, Eq, Hash, Serialize, Deserialize)]
pub enum Site {
    /// a delivery to probe `sink`
    SinkRecv { sink: u8, sub: u16, msg: M },
    /// probe `sink` uses its talkback
    SinkSend { sink: u8, sub: u16, msg: M },
    /// puppet instance receives (Handshake = it is being subscribed)
    PupRecv { pup: u8, inst: u16, msg: M },
    /// puppet instance sends to its sink (Handshake = greets)
    PupSend { pup: u8, inst: u16, msg: M },
    /// transparent tap: message travelling downstream (source -> sink) through tap `tap`, subscription `sub`
    TapDown { tap: u8, sub: u16, msg: M },
    /// transparent tap: message travelling upstream (sink -> source); Handshake = subscription
    TapUp { tap: u8, sub: u16, msg: M },
}

impl Site {
    pub fn msg(&self) -> &M {
        match self {
            Site::SinkRecv { msg, .. }
            | Site::SinkSend { msg, .. }
            | Site::PupRecv { msg, .. }
            | Site::PupSend { msg, .. }
            | Site::TapDown { msg, .. }
            | Site::TapUp { msg, .. } => msg,
        }
    }
    pub fn short(&self) -> String {
        match self {
            Site::SinkRecv { sink, sub, msg } => format!("s{sink}.{sub}<{}", msg.short()),
            Site::SinkSend { sink, sub, msg } => format!("s{sink}.{sub}>{}", msg.short()),
            Site::PupRecv { pup, inst, msg } => format!("p{pup}.{inst}<{}", msg.short()),
            Site::PupSend { pup, inst, msg } => format!("p{pup}.{inst}>{}", msg.short()),
            Site::TapDown { tap, sub, msg } => format!("t{tap}.{sub}v{}", msg.short()),
            Site::TapUp { tap, sub, msg } => format!("t{tap}.{sub}^{}", msg.short()),
        }
    }
}

#[derive(Clone, Copy, Debug, PartialEq, Eq, Hash, Serialize, Deserialize)]
pub enum CallKind {
    MapF,
    FilterP,
    ScanR,
    ForEachF,
    IterNext,
    IterClone,
    FlatMapG,
    /// virtual executor: a task was spawned (id = task), a sleep was requested (arg = ns), a task finished
    ExecSpawn,
    ExecSleep,
    ExecTaskDone,
    ExecFire,
}

#[derive(Clone, Debug, PartialEq, Eq, Hash, Serialize, Deserialize)]
pub enum Ev {
    Enter(Site),
    /// index of the matching Enter
    Exit(usize),
    Call { kind: CallKind, id: u16, arg: Vec<Val>, ret: Option<Val> },
    /// top-level step boundary; k = usize::MAX for the initial subscription
    Step { k: usize, tag: u8 },
    Panic { message: String, location: String },
    /// probe `sink` starts subscription epoch `sub` (logged just before it subscribes)
    Attach { sink: u8, sub: u16 },
    /// puppet instance (pup, inst) was created on behalf of subscription tag `owner`
    Owner { pup: u8, inst: u16, owner: u8 },
}

#[derive(Clone, Debug, Default, Serialize, Deserialize)]
pub struct History {
    pub log: Vec<Ev>,
    pub skipped_by_guard: u64,
    /// things the harness itself did wrong (must stay empty; exit 2 otherwise)
    pub harness_errors: Vec<String>,
}

/// A closed (or, after a panic, truncated) delivery extent.
#[derive(Clone, Debug)]
pub struct Span {
    pub site: Site,
    pub start: usize,
    /// log index of the Exit, or log.len() when the delivery never returned (panic unwound through it)
    pub end: usize,
    pub parent: Option<usize>, // index into spans
    pub step: usize,           // ordinal of the enclosing top-level step (0 = initial subscription)
    pub tag: u8,
}

pub struct Index {
    pub spans: Vec<Span>,
    /// span index for each log position that is an Enter
    pub span_of_enter: Vec<Option<usize>>,
}

impl History {
    pub fn index(&self) -> Index {
        let mut spans: Vec<Span> = Vec::new();
        let mut span_of_enter = vec![None; self.log.len()];
        let mut stack: Vec<usize> = Vec::new();
        let mut step = 0usize;
        let mut tag = 0u8;
        let mut nsteps = 0usize;
        for (i, ev) in self.log.iter().enumerate() {
            match ev {
                Ev::Step { tag: t, .. } => {
                    step = nsteps;
                    nsteps += 1;
                    tag = *t;
                    // a step boundary at top level: anything left on the stack was unwound by a panic
                    for s in stack.drain(..) {
                        let _ = s;
                    }
                }
                Ev::Enter(site) => {
                    let idx = spans.len();
                    spans.push(Span {
                        site: site.clone(),
                        start: i,
                        end: self.log.len(),
                        parent: stack.last().copied(),
                        step,
                        tag,
                    });
                    span_of_enter[i] = Some(idx);
                    stack.push(idx);
                }
                Ev::Exit(e) => {
                    if let Some(idx) = span_of_enter[*e] {
                        spans[idx].end = i;
                        while let Some(top) = stack.pop() {
                            if top == idx {
                                break;
                            }
                        }
                    }
                }
                _ => {}
            }
        }
        Index { spans, span_of_enter }
    }

    pub fn panics(&self) -> Vec<(String, String)> {
        self.log
            .iter()
            .filter_map(|e| match e {
                Ev::Panic { message, location } => Some((message.clone(), location.clone())),
                _ => None,
            })
            .collect()
    }

    /// compact one-line rendering, nesting shown by brackets
    pub fn render(&self) -> String {
        let mut out = String::new();
        for ev in &self.log {
            match ev {
                Ev::Enter(s) => {
                    out.push_str(&s.short());
                    out.push('[');
                }
                Ev::Exit(_) => {
                    if out.ends_with('[') {
                        out.pop();
                        out.push(' ');
                    } else {
                        if out.ends_with(' ') {
                            out.pop();
                        }
                        out.push_str("] ");
                    }
                }
                Ev::Call { kind, id, arg, ret } => {
                    out.push_str(&format!("call:{kind:?}#{id}({arg:?})={ret:?} "));
                }
                Ev::Step { k, tag } => {
                    if *k == usize::MAX {
                        out.push_str(&format!("|init/{tag}| "));
                    } else {
                        out.push_str(&format!("|{k}/{tag}| "));
                    }
                }
                Ev::Panic { message, location } => {
                    out.push_str(&format!("PANIC({message} @ {location}) "));
                }
                Ev::Attach { sink, sub } => {
                    out.push_str(&format!("attach:s{sink}.{sub} "));
                }
                Ev::Owner { .. } => {}
            }
        }
        out.trim_end().to_string()
    }

    /// FNV-1a digest of the normalised log (no addresses, no times)
    pub fn digest(&self) -> u64 {
        let mut h = Fnv::new();
        for ev in &self.log {
            h.str(&format!("{ev:?}"));
        }
        h.0
    }
}

impl Index {
    pub fn is_within(&self, inner: usize, outer: usize) -> bool {
        let mut cur = self.spans[inner].parent;
        while let Some(p) = cur {
            if p == outer {
                return true;
            }
            cur = self.spans[p].parent;
        }
        false
    }
    /// innermost enclosing span satisfying `f`
    pub fn enclosing(&self, idx: usize, f: impl Fn(&Span) -> bool) -> Option<usize> {
        let mut cur = self.spans[idx].parent;
        while let Some(p) = cur {
            if f(&self.spans[p]) {
                return Some(p);
            }
            cur = self.spans[p].parent;
        }
        None
    }
    pub fn depth(&self, idx: usize) -> usize {
        let mut d = 0;
        let mut cur = self.spans[idx].parent;
        while let Some(p) = cur {
            d += 1;
            cur = self.spans[p].parent;
        }
        d
    }
}

pub struct Fnv(pub u64);
impl Fnv {
    pub fn new() -> Self {
        Fnv(0xcbf29ce484222325)
    }
    pub fn bytes(&mut self, b: &[u8]) {
        for x in b {
            self.0 ^= *x as u64;
            self.0 = self.0.wrapping_mul(0x100000001b3);
        }
    }
    pub fn str(&mut self, s: &str) {
        self.bytes(s.as_bytes());
        self.bytes(&[0xff]);
    }
    pub fn u64(&mut self, v: u64) {
        self.bytes(&v.to_le_bytes());
    }
}
