//! C15: "stack depth does not grow with the number of items". A child process drains a long
//! from_iter through several sink shapes on a deliberately small thread stack; a recursive
//! implementation overflows it (the child dies by signal), an iterative one does not care.

use callbag::{Message, Sink, Source};
use std::sync::atomic::{AtomicU64, Ordering};
use std::sync::{Arc, Mutex};

pub const SHAPES: [&str; 4] = ["pull-once-per-item", "pull-twice-per-item", "for_each", "map-filter-for_each"];

fn drain(shape: usize, items: u64) -> u64 {
    let count = Arc::new(AtomicU64::new(0));
    let src: Source<u64> = callbag::from_iter(0..items);
    match shape {
        0 | 1 => {
            let tb: Arc<Mutex<Option<Arc<Source<u64>>>>> = Arc::new(Mutex::new(None));
            let c = Arc::clone(&count);
            let tb2 = Arc::clone(&tb);
            let sink: Arc<Sink<u64>> = Arc::new(
                (move |m: Message<u64, never::Never>| match m {
                    Message::Handshake(t) => {
                        *tb2.lock().unwrap() = Some(Arc::clone(&t));
                        t(Message::Pull);
                    }
                    Message::Data(_) => {
                        c.fetch_add(1, Ordering::Relaxed);
                        let t = tb2.lock().unwrap().clone().unwrap();
                        t(Message::Pull);
                        if shape == 1 {
                            t(Message::Pull);
                        }
                    }
                    _ => {}
                })
                .into(),
            );
            src(Message::Handshake(sink));
        }
        2 => {
            let c = Arc::clone(&count);
            callbag::for_each(move |_x: u64| {
                c.fetch_add(1, Ordering::Relaxed);
            })(src);
        }
        _ => {
            let c = Arc::clone(&count);
            let s = callbag::filter(|x: &u64| x % 2 == 0)(callbag::map(|x: u64| x + 1)(src));
            callbag::for_each(move |_x: u64| {
                c.fetch_add(1, Ordering::Relaxed);
            })(s);
        }
    }
    count.load(Ordering::Relaxed)
}

/// child entry point: prints the number of items delivered
pub fn child(shape: usize, items: u64, stack_kb: usize) -> i32 {
    let h = std::thread::Builder::new().stack_size(stack_kb << 10).spawn(move || drain(shape, items)).unwrap();
    match h.join() {
        Ok(n) => {
            println!("delivered {n}");
            0
        }
        Err(_) => 3,
    }
}

pub fn expected(shape: usize, items: u64) -> u64 {
    if shape == 3 {
        // x+1 even <=> x odd
        items / 2
    } else {
        items
    }
}

/// parent: Ok(samples) or Err(description of the failing probe)
pub fn run_all(items: u64, stack_kb: usize) -> Result<Vec<serde_json::Value>, (usize, String)> {
    let exe = std::env::current_exe().map_err(|e| (0, e.to_string()))?;
    let mut samples = vec![];
    for shape in 0..SHAPES.len() {
        let out = std::process::Command::new(&exe)
            .args(["stack-probe", &shape.to_string(), &items.to_string(), &stack_kb.to_string()])
            .output()
            .map_err(|e| (shape, e.to_string()))?;
        let text = String::from_utf8_lossy(&out.stdout).to_string();
        let want = format!("delivered {}", expected(shape, items));
        if !out.status.success() {
            return Err((shape, format!("from_iter over {items} items with sink shape `{}` on a {stack_kb} KB stack: the process died ({:?}): stack depth grows with the number of items", SHAPES[shape], out.status)));
        }
        if text.trim() != want {
            return Err((shape, format!("sink shape `{}`: expected `{want}`, got `{}`", SHAPES[shape], text.trim())));
        }
        samples.push(serde_json::json!({"shape": SHAPES[shape], "items": items, "stack_kb": stack_kb, "result": text.trim()}));
    }
    Ok(samples)
}
