//! The environment: spec-conformant peers owned by the harness (puppet sources, probe sinks, taps,
//! counting iterators), all recording into one history, and the interpreter that runs a Scenario
//! against the real crate.

use crate::hist::*;
use crate::scn::*;
use callbag::{Message, Sink, Source};
use std::any::Any;
use std::fmt;
use std::panic::{self, AssertUnwindSafe};
use std::sync::{Arc, Mutex, MutexGuard};

pub type Src<T> = Arc<Source<T>>;

/// probes stop reacting with Pulls after this many received messages (keeps every scenario finite)
pub const MAX_MSGS: usize = 96;

pub const UNBOUNDED_LIMIT: u32 = 5_000;
/// upper bound on the events of one clock-engine scenario (interval scenarios of the unchanged tree have a few hundred
/// events; the world and pipeline engines, whose legitimate histories can be long, do not use a cap)
pub const HISTORY_CAP: usize = 300_000;
pub const HISTORY_OVERFLOW_MSG: &str = "harness: history overflow";
/// panic payload used to unwind out of a runaway scenario
pub struct HistoryOverflow;

pub const ERR_NURSE_SPAWN: u32 = u32::MAX - 1;
pub const ERR_NURSE_CLOSED: u32 = u32::MAX - 2;

#[derive(Debug)]
pub struct HErr(pub u32);
impl fmt::Display for HErr {
    fn fmt(&self, f: &mut fmt::Formatter<'_>) -> fmt::Result {
        write!(f, "harness error #{}", self.0)
    }
}
impl std::error::Error for HErr {}
pub type ErrArc = Arc<dyn std::error::Error + Send + Sync + 'static>;

pub trait ToVal {
    fn to_val(&self) -> Val;
}
impl ToVal for i64 {
    fn to_val(&self) -> Val {
        Val::I(*self)
    }
}
impl ToVal for usize {
    fn to_val(&self) -> Val {
        Val::I(*self as i64)
    }
}
impl ToVal for (i64,) {
    fn to_val(&self) -> Val {
        Val::T(vec![self.0])
    }
}
impl ToVal for (i64, i64) {
    fn to_val(&self) -> Val {
        Val::T(vec![self.0, self.1])
    }
}
impl ToVal for (i64, i64, i64) {
    fn to_val(&self) -> Val {
        Val::T(vec![self.0, self.1, self.2])
    }
}
pub type T12 = (i64, i64, i64, i64, i64, i64, i64, i64, i64, i64, i64, i64);
impl ToVal for T12 {
    fn to_val(&self) -> Val {
        Val::T(vec![self.0, self.1, self.2, self.3, self.4, self.5, self.6, self.7, self.8, self.9, self.10, self.11])
    }
}

// ---------------------------------------------------------------- pure function tables

/// A call counter inside a user closure; cloning the closure copies the current count (deep copy), so
/// every subscription that gets its own clone of a pristine closure starts from zero.
pub struct DeepCounter(pub std::sync::atomic::AtomicUsize);
impl Clone for DeepCounter {
    fn clone(&self) -> Self {
        DeepCounter(std::sync::atomic::AtomicUsize::new(self.0.load(std::sync::atomic::Ordering::SeqCst)))
    }
}
impl DeepCounter {
    pub fn new() -> Self {
        DeepCounter(std::sync::atomic::AtomicUsize::new(0))
    }
    pub fn tick(&self) -> i64 {
        self.0.fetch_add(1, std::sync::atomic::Ordering::SeqCst) as i64
    }
}

pub fn map_fn(id: u8, x: i64) -> i64 {
    match id % 5 {
        0 => x.wrapping_add(1),
        1 => x.wrapping_mul(2),
        2 => x.wrapping_mul(3).wrapping_add(7),
        3 => x.wrapping_neg(),
        _ => x ^ 0x55,
    }
}
pub fn pred_fn(id: u8, x: i64) -> bool {
    match id % 5 {
        0 => x.rem_euclid(2) == 0,
        1 => x.rem_euclid(3) != 0,
        2 => true,
        3 => false,
        _ => x.rem_euclid(5) < 2,
    }
}
pub fn red_fn(id: u8, acc: i64, x: i64) -> i64 {
    match id % 4 {
        0 => acc.wrapping_add(x),
        1 => acc.wrapping_mul(31).wrapping_add(x),
        2 => acc.max(x),
        _ => x.wrapping_sub(acc),
    }
}
pub fn pack(v: &[i64]) -> i64 {
    let mut h: i64 = 17;
    for x in v {
        h = h.wrapping_mul(1_000_003).wrapping_add(*x);
    }
    h
}
pub fn puppet_value(p: u8, ordinal: u32) -> i64 {
    p as i64 * 10_000 + ordinal as i64
}
pub fn leaf_value(leaf: u8, k: u32) -> i64 {
    (50 + leaf as i64) * 10_000 + k as i64
}

// ---------------------------------------------------------------- shared world state

#[derive(Clone, Debug, Default)]
pub struct InstState {
    pub owner: u8,
    pub greeted: bool,
    pub ended: bool,
    pub terminated: bool,
    pub pending: u32,
    pub emitted: u32,
    pub pulls_seen: u32,
    /// non-conformant source: ignores terminations (C20 differential only)
    pub zombie: bool,
}

impl InstState {
    pub fn live(&self) -> bool {
        self.greeted && !self.ended && (!self.terminated || self.zombie)
    }
}

#[derive(Clone, Debug, Default)]
pub struct SinkState {
    pub greeted: bool,
    pub sent_terminal: bool,
    pub got_terminal: bool,
    pub msgs: u32,
    pub pulls_sent: u32,
}

pub struct Inner {
    pub log: Vec<Ev>,
    pub stack: Vec<usize>,
    pub pups: Vec<Vec<InstState>>,
    /// per probe, per subscription epoch
    pub sinks: Vec<Vec<SinkState>>,
    pub errs: Vec<ErrArc>,
    pub cur_tag: u8,
    pub skipped_by_guard: u64,
    pub harness_errors: Vec<String>,
    pub overflowed: bool,
    /// events after which a scenario is cut short (unlimited unless an engine sets it)
    pub history_cap: usize,
    pub tap_subs: Vec<u16>,
    /// probe drivers by id (for cross-subscription actions)
    pub drivers: Vec<Option<Arc<dyn SinkDriver>>>,
    /// per subscription tag: how many of its own steps / sends are on the stack right now
    pub busy: Vec<u32>,
    /// puppet drivers by id (for sink-triggered pushes)
    pub pup_drivers: Vec<Option<Arc<dyn PupDriver>>>,
}

pub type AttachHook = Arc<dyn Fn(usize) + Send + Sync>;

pub struct World {
    inner: Mutex<Inner>,
    /// subscribes probe `s` to the root (for probes that subscribe from inside a handler)
    attach_hook: Mutex<Option<AttachHook>>,
    /// what a `Poke` means when there are no puppet sources (the clock engine: let virtual time advance to the next
    /// timer expiry from inside the handler, as a slow handler does on a real executor)
    poke_hook: Mutex<Option<Arc<dyn Fn(u8) + Send + Sync>>>,
    /// run at the end of a scenario: break the reference cycles between harness actors and crate
    /// closures so that a campaign of millions of scenarios does not accumulate memory
    cleanups: Mutex<Vec<Box<dyn FnOnce() + Send>>>,
}

impl World {
    pub fn new(sc: &Scenario) -> Arc<World> {
        Arc::new(World {
            attach_hook: Mutex::new(None),
            poke_hook: Mutex::new(None),
            cleanups: Mutex::new(vec![]),
            inner: Mutex::new(Inner {
                log: Vec::with_capacity(256),
                stack: vec![],
                pups: vec![vec![]; sc.puppets.len()],
                sinks: vec![vec![]; sc.sinks.len().max(1)],
                errs: vec![],
                cur_tag: 0,
                skipped_by_guard: 0,
                harness_errors: vec![],
                overflowed: false,
                history_cap: usize::MAX,
                tap_subs: vec![0; 256],
                drivers: vec![],
                busy: vec![0; 8],
                pup_drivers: vec![],
            }),
        })
    }
    pub fn lock(&self) -> MutexGuard<'_, Inner> {
        self.inner.lock().unwrap_or_else(|e| e.into_inner())
    }
    pub fn enter(&self, site: Site) -> usize {
        let mut g = self.lock();
        let idx = g.log.len();
        if idx >= g.history_cap {
            // a scenario that does not stop producing events (never on the unchanged tree, whose scenarios are
            // bounded by construction): unwind out of it; the oracles judge what was recorded
            if !g.overflowed {
                g.overflowed = true;
                let cap = g.history_cap;
                g.harness_errors.push(format!("history overflow: more than {cap} events in one scenario"));
            }
            drop(g);
            std::panic::panic_any(HistoryOverflow);
        }
        g.log.push(Ev::Enter(site));
        g.stack.push(idx);
        idx
    }
    pub fn exit(&self, idx: usize) {
        let mut g = self.lock();
        g.log.push(Ev::Exit(idx));
        while let Some(top) = g.stack.pop() {
            if top == idx {
                break;
            }
        }
    }
    pub fn call(&self, kind: CallKind, id: u16, arg: Vec<Val>, ret: Option<Val>) {
        self.lock().log.push(Ev::Call { kind, id, arg, ret });
    }
    pub fn new_err(&self) -> (u32, ErrArc) {
        let mut g = self.lock();
        let id = g.errs.len() as u32;
        let e: ErrArc = Arc::new(HErr(id));
        g.errs.push(Arc::clone(&e));
        (id, e)
    }
    pub fn err_id(&self, e: &ErrArc) -> u32 {
        let g = self.lock();
        for (i, x) in g.errs.iter().enumerate() {
            if Arc::ptr_eq(x, e) {
                return i as u32;
            }
        }
        // the errors with which interval refuses a subscription
        match e.downcast_ref::<async_nursery::NurseErr>() {
            Some(async_nursery::NurseErr::Spawn) => ERR_NURSE_SPAWN,
            Some(async_nursery::NurseErr::Closed) => ERR_NURSE_CLOSED,
            None => u32::MAX,
        }
    }
    fn msg_of<I: ToVal, O>(&self, m: &Message<I, O>) -> M {
        match m {
            Message::Handshake(_) => M::Handshake,
            Message::Data(d) => M::Data(d.to_val()),
            Message::Pull => M::Pull,
            Message::Error(e) => M::Error(self.err_id(e)),
            Message::Terminate => M::Terminate,
        }
    }
    fn up_msg_of<I, O>(&self, m: &Message<I, O>) -> M {
        match m {
            Message::Handshake(_) => M::Handshake,
            Message::Data(_) => M::Data(Val::I(-1)),
            Message::Pull => M::Pull,
            Message::Error(e) => M::Error(self.err_id(e)),
            Message::Terminate => M::Terminate,
        }
    }
    pub fn set_history_cap(&self, cap: usize) {
        self.lock().history_cap = cap;
    }
    pub fn set_poke_hook(&self, h: Option<Arc<dyn Fn(u8) + Send + Sync>>) {
        *self.poke_hook.lock().unwrap_or_else(|e| e.into_inner()) = h;
    }
    pub fn set_attach_hook(&self, h: Option<AttachHook>) {
        *self.attach_hook.lock().unwrap_or_else(|e| e.into_inner()) = h;
    }
    /// a push from upstream nested in a delivery: the latest live instance of puppet `k mod n` that belongs to
    /// subscription `owner` emits its next item (or its end) now
    pub fn poke(&self, owner: u8, k: u8) {
        let hook = self.poke_hook.lock().unwrap_or_else(|e| e.into_inner()).clone();
        if let Some(h) = hook {
            h(k);
            return;
        }
        let target = {
            let mut g = self.lock();
            let n = g.pup_drivers.len();
            if n == 0 {
                None
            } else {
                let p = k as usize % n;
                let inst = g.pups[p].iter().enumerate().rev().find(|(_, st)| st.owner == owner && st.live()).map(|(i, _)| i);
                match (inst, g.pup_drivers[p].clone()) {
                    (Some(i), Some(d)) => {
                        let prev = std::mem::replace(&mut g.cur_tag, owner);
                        Some((i, d, prev))
                    }
                    _ => {
                        g.skipped_by_guard += 1;
                        None
                    }
                }
            }
        };
        if let Some((i, d, prev)) = target {
            d.act(i, PAct::Emit);
            self.lock().cur_tag = prev;
        }
    }
    /// attach probe `s` now if it is free (never attached, or its last subscription is over)
    pub fn attach_if_free(&self, s: usize) -> bool {
        let free = {
            let g = self.lock();
            match g.sinks.get(s) {
                None => false,
                // at most a handful of subscriptions per probe: in-handler attaches can otherwise chain for ever
                Some(v) if v.len() >= 5 => false,
                Some(v) => match v.last() {
                    None => true,
                    Some(st) => st.sent_terminal || st.got_terminal,
                },
            }
        };
        let hook = self.attach_hook.lock().unwrap_or_else(|e| e.into_inner()).clone();
        match (free, hook) {
            (true, Some(h)) => {
                let prev = {
                    let mut g = self.lock();
                    std::mem::replace(&mut g.cur_tag, s as u8)
                };
                h(s);
                self.lock().cur_tag = prev;
                true
            }
            _ => {
                self.lock().skipped_by_guard += 1;
                false
            }
        }
    }
    pub fn on_finish(&self, f: Box<dyn FnOnce() + Send>) {
        self.cleanups.lock().unwrap_or_else(|e| e.into_inner()).push(f);
    }
    /// ends the scenario: releases what the actors hold and hands out the history
    pub fn into_history(&self) -> History {
        self.set_attach_hook(None);
        self.set_poke_hook(None);
        let cl: Vec<_> = std::mem::take(&mut *self.cleanups.lock().unwrap_or_else(|e| e.into_inner()));
        for f in cl {
            f();
        }
        let mut g = self.lock();
        g.errs.clear();
        g.drivers.clear();
        g.pup_drivers.clear();
        g.stack = vec![];
        History {
            log: std::mem::take(&mut g.log),
            skipped_by_guard: g.skipped_by_guard,
            harness_errors: std::mem::take(&mut g.harness_errors),
        }
    }
}

// ---------------------------------------------------------------- puppet sources

pub trait PupDriver: Send + Sync {
    fn act(&self, inst: usize, act: PAct);
    fn greet(&self, inst: usize);
    fn flush(&self, inst: usize);
}

pub struct Puppet<T> {
    pub id: u8,
    world: Arc<World>,
    spec: PuppetSpec,
    sinks: Mutex<Vec<Arc<Sink<T>>>>,
    item: Mutex<Option<Box<dyn Fn(u32) -> Option<(T, Val)> + Send + Sync>>>,
}

impl<T: Send + Sync + 'static> Puppet<T> {
    pub fn new(
        id: u8,
        world: &Arc<World>,
        spec: PuppetSpec,
        item: Box<dyn Fn(u32) -> Option<(T, Val)> + Send + Sync>,
    ) -> Arc<Self> {
        let p = Arc::new(Puppet { id, world: Arc::clone(world), spec, sinks: Mutex::new(vec![]), item: Mutex::new(Some(item)) });
        let p2 = Arc::clone(&p);
        world.on_finish(Box::new(move || {
            p2.sinks.lock().unwrap_or_else(|e| e.into_inner()).clear();
            *p2.item.lock().unwrap_or_else(|e| e.into_inner()) = None;
        }));
        p
    }

    pub fn source(self: &Arc<Self>) -> Src<T> {
        let me = Arc::clone(self);
        Arc::new(
            (move |message: Message<never::Never, T>| {
                if let Message::Handshake(sink) = message {
                    me.on_subscribe(sink);
                } else {
                    me.world.lock().harness_errors.push(format!(
                        "puppet {} source called with a non-handshake message",
                        me.id
                    ));
                }
            })
            .into(),
        )
    }

    fn sink_of(&self, inst: usize) -> Arc<Sink<T>> {
        Arc::clone(&self.sinks.lock().unwrap_or_else(|e| e.into_inner())[inst])
    }

    fn on_subscribe(self: &Arc<Self>, sink: Arc<Sink<T>>) {
        let inst;
        {
            let mut s = self.sinks.lock().unwrap_or_else(|e| e.into_inner());
            inst = s.len();
            s.push(sink);
        }
        {
            let mut g = self.world.lock();
            let owner = g.cur_tag;
            g.pups[self.id as usize].push(InstState { owner, zombie: self.spec.zombie, ..Default::default() });
            g.log.push(Ev::Owner { pup: self.id, inst: inst as u16, owner });
        }
        let h = self.world.enter(Site::PupRecv { pup: self.id, inst: inst as u16, msg: M::Handshake });
        if self.spec.refuse {
            // the subscription is refused: one Error, no greeting, nothing else ever
            self.world.lock().pups[self.id as usize][inst].ended = true;
            let (id, e) = self.world.new_err();
            self.send(inst, M::Error(id), Message::Error(e));
        } else if !self.spec.late {
            self.greet(inst);
        }
        self.world.exit(h);
    }

    fn talkback(self: &Arc<Self>, inst: usize) -> Src<T> {
        let me = Arc::clone(self);
        Arc::new(
            (move |message: Message<never::Never, T>| {
                let m = me.world.up_msg_of(&message);
                let h = me.world.enter(Site::PupRecv { pup: me.id, inst: inst as u16, msg: m.clone() });
                match m {
                    M::Pull => {
                        let mode = {
                            let mut g = me.world.lock();
                            let st = &mut g.pups[me.id as usize][inst];
                            if st.live() {
                                let k = st.pulls_seen as usize;
                                st.pulls_seen += 1;
                                Some(me.spec.reply.get(k).copied().unwrap_or(me.spec.reply_default))
                            } else {
                                None
                            }
                        };
                        match mode {
                            Some(Reply::Sync) => me.act(inst, PAct::Emit),
                            Some(Reply::SyncEnd) => {
                                me.act(inst, PAct::Emit);
                                me.act(inst, PAct::End);
                            }
                            Some(Reply::Deferred) => {
                                me.world.lock().pups[me.id as usize][inst].pending += 1;
                            }
                            _ => {}
                        }
                    }
                    M::Terminate | M::Error(_) => {
                        let first = {
                            let mut g = me.world.lock();
                            let st = &mut g.pups[me.id as usize][inst];
                            let first = !st.terminated;
                            st.terminated = true;
                            first
                        };
                        // teardown effect: another source of the same subscription ends (or pushes) from inside this call
                        if let (true, Some(k)) = (first, me.spec.on_term) {
                            let target = {
                                let mut g = me.world.lock();
                                let n = g.pup_drivers.len();
                                let owner = g.pups[me.id as usize][inst].owner;
                                if n == 0 {
                                    None
                                } else {
                                    let p = k as usize % n;
                                    let ti = g.pups[p]
                                        .iter()
                                        .enumerate()
                                        .rev()
                                        .find(|(i, st)| st.owner == owner && st.live() && !(p == me.id as usize && *i == inst))
                                        .map(|(i, _)| i);
                                    match (ti, g.pup_drivers[p].clone()) {
                                        (Some(i), Some(d)) => {
                                            let prev = std::mem::replace(&mut g.cur_tag, owner);
                                            Some((i, d, prev))
                                        }
                                        _ => {
                                            g.skipped_by_guard += 1;
                                            None
                                        }
                                    }
                                }
                            };
                            if let Some((i, d, prev)) = target {
                                d.act(i, PAct::End);
                                me.world.lock().cur_tag = prev;
                            }
                        }
                    }
                    _ => {}
                }
                me.world.exit(h);
            })
            .into(),
        )
    }

    fn send(&self, inst: usize, m: M, msg: Message<T, never::Never>) {
        let sink = self.sink_of(inst);
        let h = self.world.enter(Site::PupSend { pup: self.id, inst: inst as u16, msg: m });
        sink(msg);
        self.world.exit(h);
    }
}

impl<T: Send + Sync + 'static> Puppet<T> {
    fn do_act(self: &Arc<Self>, inst: usize, act: PAct) {
        if self.spec.forget_sink {
            // a source that has dropped its subscriber's handle cannot send anything
            self.world.lock().skipped_by_guard += 1;
            return;
        }
        // guard, evaluated at the moment the action would begin
        let (ok, emitted) = {
            let mut g = self.world.lock();
            let st = &g.pups[self.id as usize][inst];
            let ok = st.live();
            let emitted = st.emitted;
            if !ok {
                g.skipped_by_guard += 1;
            }
            (ok, emitted)
        };
        if !ok {
            return;
        }
        let act = match act {
            PAct::Emit => {
                if emitted < self.spec.max_items as u32 {
                    PAct::Emit
                } else {
                    match self.spec.finale {
                        Finale::End => PAct::End,
                        Finale::Error => PAct::Error,
                        Finale::Never => {
                            self.world.lock().skipped_by_guard += 1;
                            return;
                        }
                    }
                }
            }
            a => a,
        };
        match act {
            PAct::Emit => match {
                let it = self.item.lock().unwrap_or_else(|e| e.into_inner());
                it.as_ref().and_then(|f| f(emitted))
            } {
                Some((v, val)) => {
                    self.world.lock().pups[self.id as usize][inst].emitted += 1;
                    self.send(inst, M::Data(val), Message::Data(v));
                }
                None => {
                    self.world.lock().skipped_by_guard += 1;
                }
            },
            PAct::End => {
                self.world.lock().pups[self.id as usize][inst].ended = true;
                self.send(inst, M::Terminate, Message::Terminate);
            }
            PAct::Error => {
                self.world.lock().pups[self.id as usize][inst].ended = true;
                let (id, e) = self.world.new_err();
                self.send(inst, M::Error(id), Message::Error(e));
            }
        }
    }
}

/// `Arc<Puppet<T>>` is the driver (the talkback needs an owning handle to itself).
pub struct PupHandle<T>(pub Arc<Puppet<T>>);

impl<T: Send + Sync + 'static> Puppet<T> {
    fn act(self: &Arc<Self>, inst: usize, act: PAct) {
        self.do_act(inst, act)
    }
    fn greet(self: &Arc<Self>, inst: usize) {
        {
            let mut g = self.world.lock();
            let st = &mut g.pups[self.id as usize][inst];
            if st.greeted {
                g.skipped_by_guard += 1;
                return;
            }
            st.greeted = true;
        }
        let tb = self.talkback(inst);
        self.send(inst, M::Handshake, Message::Handshake(tb));
        if self.spec.forget_sink {
            // this source never sends anything again and keeps nothing of its subscriber
            let noop: Arc<Sink<T>> = Arc::new((|_m: Message<T, never::Never>| {}).into());
            self.sinks.lock().unwrap_or_else(|e| e.into_inner())[inst] = noop;
            return;
        }
        for a in self.spec.burst.clone() {
            self.do_act(inst, a);
        }
    }
    fn flush(self: &Arc<Self>, inst: usize) {
        loop {
            let go = {
                let mut g = self.world.lock();
                let st = &mut g.pups[self.id as usize][inst];
                if st.pending > 0 && st.live() {
                    st.pending -= 1;
                    true
                } else {
                    false
                }
            };
            if !go {
                break;
            }
            self.do_act(inst, PAct::Emit);
        }
    }
}

impl<T: Send + Sync + 'static> PupDriver for PupHandle<T> {
    fn act(&self, inst: usize, act: PAct) {
        self.0.act(inst, act)
    }
    fn greet(&self, inst: usize) {
        self.0.greet(inst)
    }
    fn flush(&self, inst: usize) {
        self.0.flush(inst)
    }
}

// ---------------------------------------------------------------- probe sinks

#[derive(Clone, Copy, Debug, PartialEq, Eq)]
pub enum SendKind {
    Pull,
    Terminate,
    Error,
}

pub trait SinkDriver: Send + Sync {
    fn send(&self, kind: SendKind);
}

pub struct Probe<T> {
    pub id: u8,
    world: Arc<World>,
    spec: SinkSpec,
    /// talkback per subscription epoch
    tb: Mutex<Vec<Option<Src<T>>>>,
}

impl<T: ToVal + Send + Sync + 'static> Probe<T> {
    pub fn new(id: u8, world: &Arc<World>, spec: SinkSpec) -> Arc<Self> {
        let p = Arc::new(Probe { id, world: Arc::clone(world), spec, tb: Mutex::new(vec![]) });
        let p2 = Arc::clone(&p);
        world.on_finish(Box::new(move || p2.tb.lock().unwrap_or_else(|e| e.into_inner()).clear()));
        p
    }
    /// a fresh sink callbag for one subscription (a new epoch of this probe)
    pub fn sink(self: &Arc<Self>) -> Arc<Sink<T>> {
        let sub = {
            let mut g = self.world.lock();
            let v = &mut g.sinks[self.id as usize];
            v.push(SinkState::default());
            self.tb.lock().unwrap_or_else(|e| e.into_inner()).push(None);
            let sub = v.len() - 1;
            g.log.push(Ev::Attach { sink: self.id, sub: sub as u16 });
            sub
        };
        let me = Arc::clone(self);
        Arc::new(
            (move |message: Message<T, never::Never>| {
                let m = me.world.msg_of(&message);
                let h = me.world.enter(Site::SinkRecv { sink: me.id, sub: sub as u16, msg: m.clone() });
                let ordinal = {
                    let mut g = me.world.lock();
                    let st = &mut g.sinks[me.id as usize][sub];
                    let k = st.msgs;
                    st.msgs += 1;
                    match &m {
                        M::Handshake => st.greeted = true,
                        M::Terminate | M::Error(_) => st.got_terminal = true,
                        _ => {}
                    }
                    k as usize
                };
                if let Message::Handshake(tb) = message {
                    let mut slot = me.tb.lock().unwrap_or_else(|e| e.into_inner());
                    if slot[sub].is_none() && !me.spec.forget_tb {
                        slot[sub] = Some(tb);
                    }
                }
                let mut react = me.spec.react.get(ordinal).copied().unwrap_or(me.spec.react_default);
                // a sink may stop asking at any time; this one does after MAX_MSGS messages, so that
                // unbounded iterators cannot make a scenario diverge
                if ordinal >= MAX_MSGS && matches!(react, React::Pull | React::Pull2 | React::PullTerminate | React::PullError | React::PullAttach) {
                    react = React::Nothing;
                }
                match react {
                    React::Nothing => {}
                    React::Pull => me.do_send(sub, SendKind::Pull, true),
                    React::Pull2 => {
                        me.do_send(sub, SendKind::Pull, true);
                        me.do_send(sub, SendKind::Pull, true);
                    }
                    React::Terminate => me.do_send(sub, SendKind::Terminate, true),
                    React::Error => me.do_send(sub, SendKind::Error, true),
                    React::PullTerminate => {
                        me.do_send(sub, SendKind::Pull, true);
                        me.do_send(sub, SendKind::Terminate, true);
                    }
                    React::PullError => {
                        me.do_send(sub, SendKind::Pull, true);
                        me.do_send(sub, SendKind::Error, true);
                    }
                    React::Poke(k) => me.world.poke(me.id, k),
                    React::DisposeOther | React::Switch => {
                        let (other, n) = {
                            let g = me.world.lock();
                            let n = g.drivers.len();
                            (if n >= 2 { g.drivers[(me.id as usize + 1) % n].clone() } else { None }, n)
                        };
                        if let Some(o) = other {
                            o.send(SendKind::Terminate);
                        }
                        // (joining from inside the delivery of the source's end is the Reattach case and is
                        // kept apart: see the known finding D9)
                        if react == React::Switch && !m.is_terminal() {
                            // a free probe (not this one) joins
                            for k in 0..n {
                                if k != me.id as usize && me.world.attach_if_free(k) {
                                    break;
                                }
                            }
                        }
                    }
                    React::Reattach => {
                        me.world.attach_if_free(me.id as usize);
                    }
                    React::PullAttach => {
                        me.do_send(sub, SendKind::Pull, true);
                        // the Pull has returned; the end it may have caused has been delivered completely
                        if !me.world.attach_if_free(me.id as usize) {
                            let n = me.world.lock().drivers.len();
                            for k in 0..n {
                                if k != me.id as usize && me.world.attach_if_free(k) {
                                    break;
                                }
                            }
                        }
                    }
                    React::PullOther => {
                        // only while the other subscription is idle (nothing of its own on the stack), so
                        // that its solo run can reproduce the action as a top-level Pull
                        let other = {
                            let mut g = me.world.lock();
                            let n = g.drivers.len();
                            let o = (me.id as usize + 1) % n.max(1);
                            if n >= 2 && g.busy.get(o).copied().unwrap_or(0) == 0 {
                                g.drivers[o].clone()
                            } else {
                                g.skipped_by_guard += 1;
                                None
                            }
                        };
                        if let Some(o) = other {
                            o.send(SendKind::Pull);
                        }
                    }
                }
                me.world.exit(h);
            })
            .into(),
        )
    }

    fn do_send(&self, sub: usize, kind: SendKind, reaction: bool) {
        if self.spec.forget_tb {
            // this listener dropped its talkback: it cannot send anything
            if !reaction {
                self.world.lock().skipped_by_guard += 1;
            }
            return;
        }
        let ok = {
            let mut g = self.world.lock();
            let st = &mut g.sinks[self.id as usize][sub];
            let mut ok = st.greeted && ((!st.sent_terminal && !st.got_terminal) || self.spec.rogue);
            // C15's quantifier is "every pattern of Pull / dispose": a sink that keeps pulling after the end, or
            // after its own disposal ("does nothing once disposed" can only be observed by asking again)
            if !ok && kind == SendKind::Pull && self.spec.pull_after_end && st.greeted {
                ok = true;
            }
            if ok && kind == SendKind::Pull && self.spec.credit && st.pulls_sent >= st.msgs {
                ok = false;
            }
            if ok {
                match kind {
                    SendKind::Pull => st.pulls_sent += 1,
                    _ => st.sent_terminal = true,
                }
            } else if !reaction {
                g.skipped_by_guard += 1;
            }
            ok
        };
        if !ok {
            return;
        }
        let tb = self.tb.lock().unwrap_or_else(|e| e.into_inner())[sub].clone();
        let Some(tb) = tb else {
            self.world.lock().harness_errors.push("probe greeted without talkback".into());
            return;
        };
        let (m, msg): (M, Message<never::Never, T>) = match kind {
            SendKind::Pull => (M::Pull, Message::Pull),
            SendKind::Terminate => (M::Terminate, Message::Terminate),
            SendKind::Error => {
                let (id, e) = self.world.new_err();
                (M::Error(id), Message::Error(e))
            }
        };
        let h = self.world.enter(Site::SinkSend { sink: self.id, sub: sub as u16, msg: m });
        // whatever this send causes belongs to this probe's subscription
        let prev = {
            let mut g = self.world.lock();
            if let Some(b) = g.busy.get_mut(self.id as usize) {
                *b += 1;
            }
            std::mem::replace(&mut g.cur_tag, self.id)
        };
        tb(msg);
        {
            let mut g = self.world.lock();
            g.cur_tag = prev;
            if let Some(b) = g.busy.get_mut(self.id as usize) {
                *b = b.saturating_sub(1);
            }
        }
        self.world.exit(h);
    }

    fn send_current(&self, kind: SendKind) {
        let sub = self.world.lock().sinks[self.id as usize].len();
        if sub == 0 {
            self.world.lock().skipped_by_guard += 1;
            return;
        }
        self.do_send(sub - 1, kind, false)
    }
}

impl<T: ToVal + Send + Sync + 'static> SinkDriver for Probe<T> {
    fn send(&self, kind: SendKind) {
        self.send_current(kind)
    }
}

// ---------------------------------------------------------------- transparent tap

/// A transparent, synchronous pass-through callbag that only records both directions.
pub fn tap<T: ToVal + Send + Sync + 'static>(world: &Arc<World>, id: u8, source: Src<T>) -> Src<T> {
    let world = Arc::clone(world);
    Arc::new(
        (move |message: Message<never::Never, T>| {
            let Message::Handshake(sink) = message else { return };
            let sub = {
                let mut g = world.lock();
                let s = g.tap_subs[id as usize];
                g.tap_subs[id as usize] += 1;
                s
            };
            let h = world.enter(Site::TapUp { tap: id, sub, msg: M::Handshake });
            let world2 = Arc::clone(&world);
            source(Message::Handshake(Arc::new(
                (move |message: Message<T, never::Never>| {
                    let m = world2.msg_of(&message);
                    let h = world2.enter(Site::TapDown { tap: id, sub, msg: m });
                    match message {
                        Message::Handshake(up) => {
                            let world3 = Arc::clone(&world2);
                            sink(Message::Handshake(Arc::new(
                                (move |message: Message<never::Never, T>| {
                                    let m = world3.up_msg_of(&message);
                                    let h = world3.enter(Site::TapUp { tap: id, sub, msg: m });
                                    up(message);
                                    world3.exit(h);
                                })
                                .into(),
                            )));
                        }
                        other => sink(other),
                    }
                    world2.exit(h);
                })
                .into(),
            )));
            world.exit(h);
        })
        .into(),
    )
}

// ---------------------------------------------------------------- counting iterator (from_iter leaves)

#[derive(Debug)]
pub struct CountingIter {
    world: Arc<World>,
    leaf: u8,
    pos: u32,
    n: u32,
    /// None = unbounded
    bounded: bool,
    start: i64,
    step: i64,
}

impl fmt::Debug for World {
    fn fmt(&self, f: &mut fmt::Formatter<'_>) -> fmt::Result {
        write!(f, "World")
    }
}

impl CountingIter {
    pub fn finite(world: &Arc<World>, leaf: u8, n: u32) -> Self {
        CountingIter {
            world: Arc::clone(world),
            leaf,
            pos: 0,
            n,
            bounded: true,
            start: leaf_value(leaf, 0),
            step: 1,
        }
    }
    pub fn custom(world: &Arc<World>, leaf: u8, n: Option<u32>, start: i64, step: i64) -> Self {
        CountingIter {
            world: Arc::clone(world),
            leaf,
            pos: 0,
            n: n.unwrap_or(0),
            bounded: n.is_some(),
            start,
            step,
        }
    }
}

impl Clone for CountingIter {
    fn clone(&self) -> Self {
        self.world.call(CallKind::IterClone, self.leaf as u16, vec![Val::I(self.pos as i64)], None);
        CountingIter {
            world: Arc::clone(&self.world),
            leaf: self.leaf,
            pos: self.pos,
            n: self.n,
            bounded: self.bounded,
            start: self.start,
            step: self.step,
        }
    }
}

impl Iterator for CountingIter {
    type Item = i64;
    fn next(&mut self) -> Option<i64> {
        // an "unbounded" iterator is cut off after UNBOUNDED_LIMIT items so that a pipeline that fails to
        // stop pulling shows up as a wrong result instead of a hang
        let r = if (self.bounded && self.pos >= self.n) || (!self.bounded && self.pos >= UNBOUNDED_LIMIT) {
            None
        } else {
            let v = self.start.wrapping_add(self.step.wrapping_mul(self.pos as i64));
            self.pos += 1;
            Some(v)
        };
        self.world.call(CallKind::IterNext, self.leaf as u16, vec![], r.map(Val::I));
        r
    }
    /// exact for bounded iterators (like arrays, Vecs and ranges), open-ended otherwise
    fn size_hint(&self) -> (usize, Option<usize>) {
        if self.bounded {
            let rem = self.n.saturating_sub(self.pos) as usize;
            (rem, Some(rem))
        } else {
            (usize::MAX, None)
        }
    }
}

// ---------------------------------------------------------------- building the topology with the real crate

pub enum Root {
    I(Src<i64>),
    T1(Src<(i64,)>),
    T2(Src<(i64, i64)>),
    T3(Src<(i64, i64, i64)>),
    T12(Src<T12>),
}

pub struct Built {
    pub root: Root,
    pub pups: Vec<Option<Arc<dyn PupDriver>>>,
    /// ForEachShared: the member sources of the (unbuilt) root Merge
    pub members: Vec<Src<i64>>,
}

struct Builder<'a> {
    world: &'a Arc<World>,
    sc: &'a Scenario,
    pups: Vec<Option<Arc<dyn PupDriver>>>,
}

impl<'a> Builder<'a> {
    fn puppet_i64(&mut self, id: u8) -> Src<i64> {
        let p = Puppet::<i64>::new(
            id,
            self.world,
            self.sc.puppets[id as usize].clone(),
            Box::new(move |k| {
                let v = puppet_value(id, k);
                Some((v, Val::I(v)))
            }),
        );
        let src = p.source();
        self.pups[id as usize] = Some(Arc::new(PupHandle(p)));
        src
    }

    fn members(&mut self, ts: &[Topo]) -> Vec<Src<i64>> {
        ts.iter().map(|t| self.build(t)).collect()
    }

    fn combine_packed(&mut self, ts: &[Topo]) -> Src<i64> {
        let m = self.members(ts);
        match m.len() {
            1 => {
                let c = callbag::combine!(m[0].clone());
                Arc::new(callbag::map(|t: (i64,)| pack(&[t.0]))(c))
            }
            2 => {
                let c = callbag::combine!(m[0].clone(), m[1].clone());
                Arc::new(callbag::map(|t: (i64, i64)| pack(&[t.0, t.1]))(c))
            }
            _ => {
                let c = callbag::combine!(m[0].clone(), m[1].clone(), m[2].clone());
                Arc::new(callbag::map(|t: (i64, i64, i64)| pack(&[t.0, t.1, t.2]))(c))
            }
        }
    }

    fn build(&mut self, t: &Topo) -> Src<i64> {
        let w = Arc::clone(self.world);
        match t {
            Topo::Puppet(id) => self.puppet_i64(*id),
            Topo::FromIter { leaf, n } => {
                if *n == 255 {
                    // unbounded iterator
                    Arc::new(callbag::from_iter(CountingIter::custom(self.world, *leaf, None, leaf_value(*leaf, 0), 1)))
                } else {
                    Arc::new(callbag::from_iter(CountingIter::finite(self.world, *leaf, *n as u32)))
                }
            }
            Topo::Map(f, c) => {
                let f = *f;
                let src = self.build(c);
                let calls = DeepCounter::new();
                Arc::new(callbag::map(move |x: i64| {
                    // ids 5 and 6 are stateful: the result depends on how often this clone was called
                    let r = if f >= 5 { map_fn(f, x).wrapping_add(1000 * calls.tick()) } else { map_fn(f, x) };
                    w.call(CallKind::MapF, f as u16, vec![Val::I(x)], Some(Val::I(r)));
                    r
                })(src))
            }
            Topo::Filter(p, c) => {
                let p = *p;
                let src = self.build(c);
                let calls = DeepCounter::new();
                Arc::new(callbag::filter(move |x: &i64| {
                    // ids 5 and 6 are stateful: keep every other / every third call
                    let r = if p >= 5 { calls.tick() % (p as i64 - 3) == 0 } else { pred_fn(p, *x) };
                    w.call(CallKind::FilterP, p as u16, vec![Val::I(*x)], Some(Val::I(r as i64)));
                    r
                })(src))
            }
            Topo::Scan(r, seed, c) => {
                let r = *r;
                let src = self.build(c);
                let calls = DeepCounter::new();
                Arc::new(callbag::scan(
                    move |acc: i64, x: i64| {
                        // ids 4 and 5 are stateful
                        let v = if r >= 4 { red_fn(r, acc, x).wrapping_add(7 * calls.tick()) } else { red_fn(r, acc, x) };
                        w.call(CallKind::ScanR, r as u16, vec![Val::I(acc), Val::I(x)], Some(Val::I(v)));
                        v
                    },
                    *seed,
                )(src))
            }
            Topo::Take(n, c) => {
                let src = self.build(c);
                Arc::new(callbag::take(count_param(*n))(src))
            }
            Topo::Skip(n, c) => {
                let src = self.build(c);
                Arc::new(callbag::skip(count_param(*n))(src))
            }
            Topo::Merge(ts) => {
                let m = self.members(ts);
                Arc::new(match m.len() {
                    1 => callbag::merge!(m[0].clone()),
                    2 => callbag::merge!(m[0].clone(), m[1].clone()),
                    3 => callbag::merge!(m[0].clone(), m[1].clone(), m[2].clone()),
                    4 => callbag::merge!(m[0].clone(), m[1].clone(), m[2].clone(), m[3].clone()),
                    _ => callbag::merge(m.into_boxed_slice()),
                })
            }
            Topo::Concat(ts) => {
                let m = self.members(ts);
                Arc::new(match m.len() {
                    1 => callbag::concat!(m[0].clone()),
                    2 => callbag::concat!(m[0].clone(), m[1].clone()),
                    3 => callbag::concat!(m[0].clone(), m[1].clone(), m[2].clone()),
                    4 => callbag::concat!(m[0].clone(), m[1].clone(), m[2].clone(), m[3].clone()),
                    _ => callbag::concat(m.into_boxed_slice()),
                })
            }
            Topo::Combine(ts) => self.combine_packed(ts),
            Topo::Flatten { outer, inners, order } => {
                let inner_srcs: Vec<Src<i64>> = self.members(inners);
                let id = *outer;
                let order = order.clone();
                let p = Puppet::<Src<i64>>::new(
                    id,
                    self.world,
                    self.sc.puppets[id as usize].clone(),
                    Box::new(move |k| {
                        let idx = if order.is_empty() { Some(k as usize) } else { order.get(k as usize).map(|i| *i as usize) };
                        idx.and_then(|i| inner_srcs.get(i).map(|s| (Arc::clone(s), Val::Src(i as u16))))
                    }),
                );
                let src = p.source();
                self.pups[id as usize] = Some(Arc::new(PupHandle(p)));
                Arc::new(callbag::flatten(src))
            }
            Topo::FlatMap { outer, inners } => {
                let o = self.build(outer);
                let inner_srcs: Vec<Src<i64>> = self.members(inners);
                let n = inner_srcs.len().max(1) as i64;
                let mapped: Source<Src<i64>> = callbag::map(move |x: i64| {
                    let k = x.rem_euclid(n) as usize;
                    w.call(CallKind::FlatMapG, 0, vec![Val::I(x)], Some(Val::Src(k as u16)));
                    Arc::clone(&inner_srcs[k])
                })(o);
                Arc::new(callbag::flatten(mapped))
            }
            Topo::Share(c) => {
                let src = self.build(c);
                Arc::new(callbag::share(src))
            }
            Topo::Diamond(f, q, c) => {
                let (f, q) = (*f, *q);
                let shared: Src<i64> = Arc::new(callbag::share(self.build(c)));
                let w2 = Arc::clone(&w);
                let a: Src<i64> = Arc::new(callbag::map(move |x: i64| {
                    let r = map_fn(f, x);
                    w.call(CallKind::MapF, f as u16, vec![Val::I(x)], Some(Val::I(r)));
                    r
                })(Arc::clone(&shared)));
                let b: Src<i64> = Arc::new(callbag::filter(move |x: &i64| {
                    let r = pred_fn(q, *x);
                    w2.call(CallKind::FilterP, q as u16, vec![Val::I(*x)], Some(Val::I(r as i64)));
                    r
                })(shared));
                Arc::new(callbag::merge!(a, b))
            }
        }
    }
}

pub fn build(world: &Arc<World>, sc: &Scenario) -> Built {
    let mut b = Builder { world, sc, pups: (0..sc.puppets.len()).map(|_| None).collect() };
    if sc.sink_kind == SinkKind::ForEachShared {
        let members = match &sc.topo {
            Topo::Merge(ts) => b.members(ts),
            other => vec![b.build(other)],
        };
        let root = Root::I(Arc::clone(&members[0]));
        return Built { root, pups: b.pups, members };
    }
    let root = match (&sc.topo, sc.root_tuple) {
        (Topo::Combine(ts), true) => {
            let m = b.members(ts);
            match m.len() {
                1 => Root::T1(Arc::new(callbag::combine!(m[0].clone()))),
                2 => Root::T2(Arc::new(callbag::combine!(m[0].clone(), m[1].clone()))),
                12 => Root::T12(Arc::new(callbag::combine!(
                    m[0].clone(),
                    m[1].clone(),
                    m[2].clone(),
                    m[3].clone(),
                    m[4].clone(),
                    m[5].clone(),
                    m[6].clone(),
                    m[7].clone(),
                    m[8].clone(),
                    m[9].clone(),
                    m[10].clone(),
                    m[11].clone()
                ))),
                _ => Root::T3(Arc::new(callbag::combine!(m[0].clone(), m[1].clone(), m[2].clone()))),
            }
        }
        (t, _) => Root::I(b.build(t)),
    };
    Built { root, pups: b.pups, members: vec![] }
}

enum AnyProbe {
    I(Arc<Probe<i64>>),
    T1(Arc<Probe<(i64,)>>),
    T2(Arc<Probe<(i64, i64)>>),
    T3(Arc<Probe<(i64, i64, i64)>>),
    T12(Arc<Probe<T12>>),
}

impl AnyProbe {
    fn send(&self, k: SendKind) {
        match self {
            AnyProbe::I(p) => p.send(k),
            AnyProbe::T1(p) => p.send(k),
            AnyProbe::T2(p) => p.send(k),
            AnyProbe::T3(p) => p.send(k),
            AnyProbe::T12(p) => p.send(k),
        }
    }
}

// ---------------------------------------------------------------- panic capture

thread_local! {
    static LAST_PANIC: std::cell::RefCell<Option<(String, String)>> = const { std::cell::RefCell::new(None) };
}

pub fn install_panic_hook() {
    static ONCE: std::sync::Once = std::sync::Once::new();
    ONCE.call_once(|| {
        panic::set_hook(Box::new(|info| {
            let loc = info.location().map(|l| format!("{}:{}", l.file(), l.line())).unwrap_or_default();
            let msg = if let Some(s) = info.payload().downcast_ref::<&str>() {
                s.to_string()
            } else if let Some(s) = info.payload().downcast_ref::<String>() {
                s.clone()
            } else if info.payload().downcast_ref::<HistoryOverflow>().is_some() {
                HISTORY_OVERFLOW_MSG.to_string()
            } else {
                "<non-string panic>".to_string()
            };
            if std::env::var_os("CBV_SHOW_PANICS").is_some() {
                eprintln!("panic: {msg} @ {loc}");
            }
            LAST_PANIC.with(|p| *p.borrow_mut() = Some((msg, loc)));
        }));
    });
}

pub fn take_last_panic() -> Option<(String, String)> {
    LAST_PANIC.with(|p| p.borrow_mut().take())
}

pub fn payload_string(p: &Box<dyn Any + Send>) -> String {
    if p.downcast_ref::<HistoryOverflow>().is_some() {
        return HISTORY_OVERFLOW_MSG.to_string();
    }
    if let Some(s) = p.downcast_ref::<&str>() {
        s.to_string()
    } else if let Some(s) = p.downcast_ref::<String>() {
        s.clone()
    } else {
        "<non-string panic>".into()
    }
}

// ---------------------------------------------------------------- the interpreter

pub fn run(sc: &Scenario) -> History {
    install_panic_hook();
    let world = World::new(sc);
    let built = build(&world, sc);
    let spec_of = |i: u8| sc.sinks.get(i as usize).cloned().unwrap_or_default();
    let probes: Vec<AnyProbe> = (0..sc.sinks.len().max(1) as u8)
        .map(|i| match &built.root {
            Root::I(_) => AnyProbe::I(Probe::new(i, &world, spec_of(i))),
            Root::T1(_) => AnyProbe::T1(Probe::new(i, &world, spec_of(i))),
            Root::T2(_) => AnyProbe::T2(Probe::new(i, &world, spec_of(i))),
            Root::T3(_) => AnyProbe::T3(Probe::new(i, &world, spec_of(i))),
            Root::T12(_) => AnyProbe::T12(Probe::new(i, &world, spec_of(i))),
        })
        .collect();

    world.lock().pup_drivers = built.pups.clone();
    {
        let mut g = world.lock();
        g.drivers = probes
            .iter()
            .map(|p| -> Option<Arc<dyn SinkDriver>> {
                Some(match p {
                    AnyProbe::I(p) => Arc::clone(p) as Arc<dyn SinkDriver>,
                    AnyProbe::T1(p) => Arc::clone(p) as Arc<dyn SinkDriver>,
                    AnyProbe::T2(p) => Arc::clone(p) as Arc<dyn SinkDriver>,
                    AnyProbe::T3(p) => Arc::clone(p) as Arc<dyn SinkDriver>,
                    AnyProbe::T12(p) => Arc::clone(p) as Arc<dyn SinkDriver>,
                })
            })
            .collect();
    }
    let probes = Arc::new(probes);
    let root = Arc::new(built.root);
    let attach_arc: AttachHook = {
        let probes = Arc::clone(&probes);
        let root = Arc::clone(&root);
        Arc::new(move |s: usize| match (&*root, &probes[s]) {
            (Root::I(src), AnyProbe::I(p)) => src(Message::Handshake(p.sink())),
            (Root::T1(src), AnyProbe::T1(p)) => src(Message::Handshake(p.sink())),
            (Root::T2(src), AnyProbe::T2(p)) => src(Message::Handshake(p.sink())),
            (Root::T3(src), AnyProbe::T3(p)) => src(Message::Handshake(p.sink())),
            (Root::T12(src), AnyProbe::T12(p)) => src(Message::Handshake(p.sink())),
            _ => unreachable!(),
        })
    };
    world.set_attach_hook(Some(Arc::clone(&attach_arc)));
    let attach = |s: usize| attach_arc(s);

    let guarded = |world: &Arc<World>, k: usize, tag: u8, f: &dyn Fn()| -> bool {
        {
            let mut g = world.lock();
            g.cur_tag = tag;
            g.stack.clear();
            g.log.push(Ev::Step { k, tag });
            for b in g.busy.iter_mut() {
                *b = 0;
            }
            if let Some(b) = g.busy.get_mut(tag as usize) {
                *b = 1;
            }
        }
        take_last_panic();
        let r = panic::catch_unwind(AssertUnwindSafe(f));
        if let Err(p) = r {
            let (message, location) = take_last_panic().unwrap_or((payload_string(&p), String::new()));
            world.lock().log.push(Ev::Panic { message, location });
            return false;
        }
        true
    };

    let mut ok = true;
    if sc.attach_first {
        ok = match sc.sink_kind {
            SinkKind::Probe => guarded(&world, usize::MAX, 0, &|| attach(0)),
            SinkKind::ForEachShared => {
                // one sink factory value, applied to each member source in turn
                let w = Arc::clone(&world);
                let fe: Box<dyn Fn(Src<i64>)> = callbag::for_each(move |x: i64| {
                    w.call(CallKind::ForEachF, 0, vec![Val::I(x)], None);
                });
                let mut all_ok = true;
                for (k, m) in built.members.iter().enumerate() {
                    if sc.fe_only.map_or(true, |o| o as usize == k) {
                        all_ok &= guarded(&world, usize::MAX, k as u8, &|| fe(tap(&world, 250 + k as u8, Arc::clone(m))));
                    }
                }
                all_ok
            }
            SinkKind::ForEach => guarded(&world, usize::MAX, 0, &|| {
                let w = Arc::clone(&world);
                let Root::I(src) = &*root else { unreachable!() };
                // the user's closure may push into its own source (a subject fed or completed from the handler)
                let react = sc.sinks.first().map(|s| s.react.clone()).unwrap_or_default();
                let calls = Arc::new(std::sync::atomic::AtomicUsize::new(0));
                callbag::for_each(move |x: i64| {
                    w.call(CallKind::ForEachF, 0, vec![Val::I(x)], None);
                    let k = calls.fetch_add(1, std::sync::atomic::Ordering::Relaxed);
                    if let Some(React::Poke(p)) = react.get(k) {
                        w.poke(0, *p);
                    }
                })(tap(&world, 255, Arc::clone(src)));
            }),
        };
    }
    if ok {
        for (k, step) in sc.schedule.iter().enumerate() {
            let cont = match *step {
                Step::Pup { p, owner, act } => {
                    let Some(Some(drv)) = built.pups.get(p as usize) else {
                        world.lock().skipped_by_guard += 1;
                        continue;
                    };
                    // latest instance of p owned by `owner` that can still act
                    let target = {
                        let g = world.lock();
                        let insts = &g.pups[p as usize];
                        let want_greet = act == StepPAct::Greet;
                        insts
                            .iter()
                            .enumerate()
                            .rev()
                            .find(|(_, st)| {
                                (owner == ANY_OWNER || st.owner == owner)
                                    && if want_greet { !st.greeted } else { st.live() }
                            })
                            .map(|(i, st)| (i, st.owner))
                    };
                    let Some((inst, inst_owner)) = target else {
                        world.lock().skipped_by_guard += 1;
                        continue;
                    };
                    let tag = if owner == ANY_OWNER { inst_owner } else { owner };
                    guarded(&world, k, tag, &|| match act {
                        StepPAct::Emit => drv.act(inst, PAct::Emit),
                        StepPAct::End => drv.act(inst, PAct::End),
                        StepPAct::Error => drv.act(inst, PAct::Error),
                        StepPAct::Flush => drv.flush(inst),
                        StepPAct::Greet => drv.greet(inst),
                    })
                }
                Step::Sink { s, act } => {
                    let s = s as usize;
                    if s >= probes.len() || sc.sink_kind != SinkKind::Probe {
                        world.lock().skipped_by_guard += 1;
                        continue;
                    }
                    match act {
                        StepSAct::Attach => {
                            // a probe re-attaches only when its previous subscription is over (or it never attached)
                            let free = {
                                let g = world.lock();
                                match g.sinks[s].last() {
                                    None => true,
                                    Some(st) => st.sent_terminal || st.got_terminal,
                                }
                            };
                            if !free {
                                world.lock().skipped_by_guard += 1;
                                continue;
                            }
                            guarded(&world, k, s as u8, &|| attach(s))
                        }
                        StepSAct::Pull => guarded(&world, k, s as u8, &|| probes[s].send(SendKind::Pull)),
                        StepSAct::Terminate => {
                            guarded(&world, k, s as u8, &|| probes[s].send(SendKind::Terminate))
                        }
                        StepSAct::Error => guarded(&world, k, s as u8, &|| probes[s].send(SendKind::Error)),
                    }
                }
            };
            if !cont {
                break;
            }
        }
    }
    world.into_history()
}
