//! Oracle context (edges, instances, subscriptions derived from the history) and the
//! topology-agnostic protocol monitors for C01-C05 and C17.

use crate::hist::*;
use crate::scn::*;
use std::collections::BTreeMap;

#[derive(Clone, Debug)]
pub struct Finding {
    pub prop: &'static str,
    /// stable signature used to match known findings (no values, no positions)
    pub sig: String,
    pub detail: String,
    pub at: usize,
}

pub fn finding(prop: &'static str, sig: impl Into<String>, detail: impl Into<String>, at: usize) -> Finding {
    Finding { prop, sig: sig.into(), detail: detail.into(), at }
}

#[derive(Clone, Copy, PartialEq, Eq, Hash, Debug, PartialOrd, Ord)]
pub enum EdgeKey {
    Probe(u8, u16),
    Pup(u8, u16),
    Tap(u8, u16),
}

#[derive(Clone, Copy, PartialEq, Eq, Debug)]
pub enum Dir {
    Down,
    Up,
}

#[derive(Clone, Debug)]
pub struct EdgeEv {
    pub dir: Dir,
    pub msg: M,
    pub start: usize,
    pub end: usize,
    pub span: usize,
}

#[derive(Clone, Debug)]
pub struct InstInfo {
    pub pup: u8,
    pub inst: u16,
    pub created: usize,
    pub tag: u8,
    /// index into Ctx::subs of the root subscription this instance belongs to
    pub sub: Option<usize>,
    pub greeted_at: Option<usize>,
    pub ended_at: Option<(usize, M)>,
    pub terms: Vec<(usize, M)>,
    pub created_span: usize,
}

impl InstInfo {
    pub fn live_at(&self, pos: usize) -> bool {
        self.greeted_at.map_or(false, |g| g < pos)
            && self.ended_at.as_ref().map_or(true, |(e, _)| *e > pos)
            && self.terms.first().map_or(true, |(t, _)| *t > pos)
    }
}

#[derive(Clone, Debug)]
pub struct SubInfo {
    pub sink: u8,
    pub sub: u16,
    pub attach_at: usize,
    pub greeted_at: Option<usize>,
    pub disposed_at: Option<(usize, M)>,
    pub terminal_at: Option<(usize, M)>,
}

impl SubInfo {
    pub fn over_at(&self) -> Option<usize> {
        match (&self.disposed_at, &self.terminal_at) {
            (Some((a, _)), Some((b, _))) => Some(*a.min(b)),
            (Some((a, _)), None) => Some(*a),
            (None, Some((b, _))) => Some(*b),
            (None, None) => None,
        }
    }
    pub fn live_at(&self, pos: usize) -> bool {
        self.attach_at < pos && self.over_at().map_or(true, |o| o > pos)
    }
}

pub struct Ctx<'a> {
    pub sc: &'a Scenario,
    pub h: &'a History,
    pub ix: Index,
    pub edges: BTreeMap<EdgeKey, Vec<EdgeEv>>,
    pub insts: Vec<InstInfo>,
    pub subs: Vec<SubInfo>,
    pub has_share: bool,
}

impl<'a> Ctx<'a> {
    pub fn new(sc: &'a Scenario, h: &'a History) -> Self {
        let ix = h.index();
        let mut edges: BTreeMap<EdgeKey, Vec<EdgeEv>> = BTreeMap::new();
        let mut subs: Vec<SubInfo> = vec![];
        for (i, ev) in h.log.iter().enumerate() {
            if let Ev::Attach { sink, sub } = ev {
                subs.push(SubInfo {
                    sink: *sink,
                    sub: *sub,
                    attach_at: i,
                    greeted_at: None,
                    disposed_at: None,
                    terminal_at: None,
                });
            }
        }
        for (si, sp) in ix.spans.iter().enumerate() {
            let (key, dir, msg) = match &sp.site {
                Site::SinkRecv { sink, sub, msg } => (EdgeKey::Probe(*sink, *sub), Dir::Down, msg),
                Site::SinkSend { sink, sub, msg } => (EdgeKey::Probe(*sink, *sub), Dir::Up, msg),
                Site::PupRecv { pup, inst, msg } => (EdgeKey::Pup(*pup, *inst), Dir::Up, msg),
                Site::PupSend { pup, inst, msg } => (EdgeKey::Pup(*pup, *inst), Dir::Down, msg),
                // the tap in front of the crate's for_each plays the role of probe 0
                Site::TapDown { tap: 255, sub, msg } => (EdgeKey::Probe(0, *sub), Dir::Down, msg),
                Site::TapUp { tap: 255, sub, msg } => {
                    if *msg == M::Handshake {
                        subs.push(SubInfo {
                            sink: 0,
                            sub: *sub,
                            attach_at: sp.start,
                            greeted_at: None,
                            disposed_at: None,
                            terminal_at: None,
                        });
                        continue;
                    }
                    (EdgeKey::Probe(0, *sub), Dir::Up, msg)
                }
                Site::TapDown { tap, sub, msg } => (EdgeKey::Tap(*tap, *sub), Dir::Down, msg),
                Site::TapUp { tap, sub, msg } => (EdgeKey::Tap(*tap, *sub), Dir::Up, msg),
            };
            edges.entry(key).or_default().push(EdgeEv {
                dir,
                msg: msg.clone(),
                start: sp.start,
                end: sp.end,
                span: si,
            });
        }
        subs.sort_by_key(|s| s.attach_at);
        for s in subs.iter_mut() {
            if let Some(evs) = edges.get(&EdgeKey::Probe(s.sink, s.sub)) {
                for e in evs {
                    match (e.dir, &e.msg) {
                        (Dir::Down, M::Handshake) if s.greeted_at.is_none() => s.greeted_at = Some(e.start),
                        (Dir::Down, m) if m.is_terminal() && s.terminal_at.is_none() => {
                            s.terminal_at = Some((e.start, m.clone()))
                        }
                        (Dir::Up, m) if m.is_terminal() && s.disposed_at.is_none() => {
                            s.disposed_at = Some((e.start, m.clone()))
                        }
                        _ => {}
                    }
                }
            }
        }
        let mut insts = vec![];
        for (key, evs) in &edges {
            let EdgeKey::Pup(pup, inst) = key else { continue };
            let first = &evs[0];
            // the subscription on whose behalf the instance was created (recorded by the puppet)
            let tag = h
                .log
                .iter()
                .find_map(|e| match e {
                    Ev::Owner { pup: p, inst: k, owner } if p == pup && k == inst => Some(*owner),
                    _ => None,
                })
                .unwrap_or(ix.spans[first.span].tag);
            let sub = subs.iter().rposition(|s| s.sink == tag && s.attach_at < first.start);
            let mut info = InstInfo {
                pup: *pup,
                inst: *inst,
                created: first.start,
                tag,
                sub,
                greeted_at: None,
                ended_at: None,
                terms: vec![],
                created_span: first.span,
            };
            for e in evs {
                match (e.dir, &e.msg) {
                    (Dir::Down, M::Handshake) if info.greeted_at.is_none() => info.greeted_at = Some(e.start),
                    (Dir::Down, m) if m.is_terminal() && info.ended_at.is_none() => {
                        info.ended_at = Some((e.start, m.clone()))
                    }
                    (Dir::Up, m) if m.is_terminal() => info.terms.push((e.start, m.clone())),
                    _ => {}
                }
            }
            insts.push(info);
        }
        insts.sort_by_key(|i| i.created);
        let has_share = sc.topo.contains("share") || sc.topo.contains("diamond");
        Ctx { sc, h, ix, edges, insts, subs, has_share }
    }

    pub fn probe_edge(&self, s: &SubInfo) -> &[EdgeEv] {
        self.edges.get(&EdgeKey::Probe(s.sink, s.sub)).map(|v| &v[..]).unwrap_or(&[])
    }
    pub fn pup_edge(&self, i: &InstInfo) -> &[EdgeEv] {
        self.edges.get(&EdgeKey::Pup(i.pup, i.inst)).map(|v| &v[..]).unwrap_or(&[])
    }
    pub fn inst(&self, pup: u8, inst: u16) -> Option<&InstInfo> {
        self.insts.iter().find(|i| i.pup == pup && i.inst == inst)
    }
    /// data values delivered to a probe subscription, in order
    pub fn probe_data(&self, s: &SubInfo) -> Vec<(usize, Val)> {
        self.probe_edge(s)
            .iter()
            .filter_map(|e| match (&e.dir, &e.msg) {
                (Dir::Down, M::Data(v)) => Some((e.start, v.clone())),
                _ => None,
            })
            .collect()
    }
}

// ------------------------------------------------------------------ source-side rules at probes

/// C01: greet-first, greet-once
pub fn c01(cx: &Ctx) -> Vec<Finding> {
    let mut out = vec![];
    for s in &cx.subs {
        let mut greeted = 0;
        for e in cx.probe_edge(s) {
            if e.dir != Dir::Down {
                continue;
            }
            match &e.msg {
                M::Handshake => {
                    greeted += 1;
                    if greeted > 1 {
                        out.push(finding(
                            "C01",
                            "C01:second-handshake",
                            format!("probe s{}.{} greeted {} times", s.sink, s.sub, greeted),
                            e.start,
                        ));
                    }
                }
                m => {
                    if greeted == 0 {
                        out.push(finding(
                            "C01",
                            format!("C01:{}-before-handshake", m.kind()),
                            format!("probe s{}.{} received {} before any handshake", s.sink, s.sub, m.short()),
                            e.start,
                        ));
                    }
                }
            }
        }
    }
    out
}

/// C02: termination is final
pub fn c02(cx: &Ctx) -> Vec<Finding> {
    let mut out = vec![];
    for s in &cx.subs {
        let mut terminal: Option<&EdgeEv> = None;
        for e in cx.probe_edge(s) {
            if e.dir != Dir::Down {
                continue;
            }
            if let Some(t) = terminal {
                out.push(finding(
                    "C02",
                    format!("C02:{}-after-{}", e.msg.kind(), t.msg.kind()),
                    format!(
                        "probe s{}.{} received {} after its terminal {}",
                        s.sink,
                        s.sub,
                        e.msg.short(),
                        t.msg.short()
                    ),
                    e.start,
                ));
            } else if e.msg.is_terminal() {
                terminal = Some(e);
            }
        }
    }
    out
}

/// C03: disposal is respected
pub fn c03(cx: &Ctx) -> Vec<Finding> {
    let mut out = vec![];
    for s in &cx.subs {
        let mut disposed: Option<&EdgeEv> = None;
        for e in cx.probe_edge(s) {
            match e.dir {
                Dir::Up => {
                    if e.msg.is_terminal() && disposed.is_none() {
                        disposed = Some(e);
                    }
                }
                Dir::Down => {
                    if let Some(d) = disposed {
                        out.push(finding(
                            "C03",
                            format!("C03:{}-after-disposal", e.msg.kind()),
                            format!(
                                "a delivery of {} to probe s{}.{} began after it had sent {}",
                                e.msg.short(),
                                s.sink,
                                s.sub,
                                d.msg.short()
                            ),
                            e.start,
                        ));
                    }
                }
            }
        }
    }
    out
}

// ------------------------------------------------------------------ sink-side rules at puppets

fn pass_through_only(path: &[&'static str]) -> bool {
    // the operators whose sink-facing talkback relays an upward Error as an Error (C04's rationale names
    // map/filter/scan/take/skip/concat/combine as untested and merge as tested); flatten and share turn it
    // into a plain disposal on HEAD and are not pass-through in this sense
    path.iter().all(|n| matches!(*n, "map" | "filter" | "scan" | "take" | "skip" | "concat" | "combine" | "merge"))
}

/// puppets that may legitimately be subscribed several times per output subscription
fn multi_ok(t: &Topo, under_inner: bool, out: &mut BTreeMap<u8, bool>) {
    match t {
        Topo::Puppet(p) => {
            out.insert(*p, under_inner);
        }
        Topo::Flatten { outer, inners, .. } => {
            out.insert(*outer, under_inner);
            for c in inners {
                multi_ok(c, true, out);
            }
        }
        Topo::FlatMap { outer, inners } => {
            multi_ok(outer, under_inner, out);
            for c in inners {
                multi_ok(c, true, out);
            }
        }
        other => {
            for c in other.children() {
                multi_ok(c, under_inner, out);
            }
        }
    }
}

/// The rules a sink must obey towards one source, over the events of that edge: nothing upstream before
/// it was greeted, at most one termination, nothing after the source ended by itself or was terminated.
fn sink_side_rules(evs: &[EdgeEv], name: &str, op: &str, first_is_subscription: bool, out: &mut Vec<Finding>) {
    let mut greeted = false;
    let mut ended: Option<M> = None;
    let mut terminated: Option<M> = None;
    for (k, e) in evs.iter().enumerate() {
        match e.dir {
            Dir::Down => match &e.msg {
                M::Handshake => greeted = true,
                m if m.is_terminal() => {
                    if ended.is_none() {
                        ended = Some(m.clone())
                    }
                }
                _ => {}
            },
            Dir::Up => {
                if k == 0 && first_is_subscription {
                    continue; // the subscription itself
                }
                let m = &e.msg;
                if matches!(m, M::Handshake | M::Data(_)) {
                    out.push(finding(
                        "C04",
                        format!("C04:{}-sent-upstream", m.kind()),
                        format!("{name} received {} on its talkback", m.short()),
                        e.start,
                    ));
                    continue;
                }
                if !greeted {
                    out.push(finding(
                        "C04",
                        format!("C04:{}-before-greeted", m.kind()),
                        format!("{name} received {} before it greeted", m.short()),
                        e.start,
                    ));
                }
                if let Some(t) = &terminated {
                    out.push(finding(
                        "C04",
                        format!("C04:{}-after-terminated({})", m.kind(), op),
                        format!("{name} received {} after it had been terminated with {}", m.short(), t.short()),
                        e.start,
                    ));
                } else if let Some(t) = &ended {
                    out.push(finding(
                        "C04",
                        format!("C04:{}-after-own-end({})", m.kind(), op),
                        format!("{name} received {} after it had ended by itself with {}", m.short(), t.short()),
                        e.start,
                    ));
                }
                if m.is_terminal() && terminated.is_none() {
                    terminated = Some(m.clone());
                }
            }
        }
    }
}

/// C04: operators (and for_each) are conformant sinks; no orphaned or doubly-terminated upstream
pub fn c04(cx: &Ctx) -> Vec<Finding> {
    let mut out = vec![];
    let root_op = cx.sc.topo.op_name();
    // (2) sink-side protocol rules per puppet instance
    for inst in &cx.insts {
        let name = format!("p{}.{}", inst.pup, inst.inst);
        // the operator that talks to this puppet directly
        let op = match cx.sc.sink_kind {
            SinkKind::ForEach if matches!(cx.sc.topo, Topo::Puppet(_)) => "for_each",
            _ => cx.sc.topo.path_to(inst.pup).and_then(|p| p.last().copied()).unwrap_or("none"),
        };
        sink_side_rules(cx.pup_edge(inst), &name, op, true, &mut out);
    }
    // the crate's own sink (for_each) is judged at the tap in front of it, whatever it sits on
    if cx.sc.sink_kind == SinkKind::ForEach {
        for s in &cx.subs {
            sink_side_rules(cx.probe_edge(s), "the source under for_each", "for_each", false, &mut out);
        }
    }
    if cx.has_share {
        return out; // subscription counting and orphans under share are C12's model
    }
    // (1) at most one subscription per puppet per output subscription; none once the output is over
    let mut mo = BTreeMap::new();
    multi_ok(&cx.sc.topo, false, &mut mo);
    let mut counts: BTreeMap<(u8, Option<usize>), usize> = BTreeMap::new();
    for inst in &cx.insts {
        *counts.entry((inst.pup, inst.sub)).or_default() += 1;
        if let Some(si) = inst.sub {
            let s = &cx.subs[si];
            if let Some(over) = s.over_at() {
                if over < inst.created {
                    out.push(finding(
                        "C04",
                        format!("C04:subscribed-after-over({root_op})"),
                        format!(
                            "p{}.{} was subscribed after the output s{}.{} was over",
                            inst.pup, inst.inst, s.sink, s.sub
                        ),
                        inst.created,
                    ));
                }
            }
        }
    }
    for ((p, sub), n) in counts {
        if n > 1 && !mo.get(&p).copied().unwrap_or(false) {
            out.push(finding(
                "C04",
                format!("C04:subscribed-twice({root_op})"),
                format!("puppet {p} was subscribed {n} times for one output subscription {sub:?}"),
                0,
            ));
        }
    }
    // (3) no orphan; Error kind through pass-through paths
    for inst in &cx.insts {
        let Some(si) = inst.sub else { continue };
        let s = &cx.subs[si];
        let Some(over) = s.over_at() else { continue };
        if inst.greeted_at.is_none() {
            continue;
        }
        let name = format!("p{}.{}", inst.pup, inst.inst);
        let path = cx.sc.topo.path_to(inst.pup).unwrap_or_default();
        let via: Vec<&str> = {
            let mut v = path.clone();
            v.dedup();
            v
        };
        if inst.ended_at.is_none() && inst.terms.len() != 1 {
            let late = inst.greeted_at.unwrap() > over;
            out.push(finding(
                "C04",
                format!(
                    "C04:orphan{}({})",
                    if late { "-late-greeter" } else { "" },
                    via.join(">")
                ),
                format!(
                    "{name} greeted, never ended, the output s{}.{} is over, but it received {} terminations",
                    s.sink,
                    s.sub,
                    inst.terms.len()
                ),
                over,
            ));
        }
        // a late greeter after the output is over must be disposed inside its greeting call
        if let (Some(g), Some((t, _))) = (inst.greeted_at, inst.terms.first()) {
            if g > over {
                let gspan = cx.ix.span_of_enter[g].unwrap();
                if !(g < *t && *t < cx.ix.spans[gspan].end) {
                    out.push(finding(
                        "C04",
                        "C04:late-greeter-not-disposed-at-once",
                        format!("{name} greeted after the output was over but was not disposed inside its greeting"),
                        g,
                    ));
                }
            }
        }
        if let Some((d, M::Error(eid))) = &s.disposed_at {
            if pass_through_only(&path) && inst.live_at(*d) {
                match inst.terms.first() {
                    Some((_, M::Error(x))) if x == eid => {}
                    Some((t, m)) => out.push(finding(
                        "C04",
                        format!("C04:error-kind-lost({})", via.join(">")),
                        format!("sink sent Error#{eid} through {path:?} but {name} received {}", m.short()),
                        *t,
                    )),
                    None => {}
                }
            }
        }
    }
    out
}

/// C05: errors are not lost
pub fn c05(cx: &Ctx) -> Vec<Finding> {
    let mut out = vec![];
    for inst in &cx.insts {
        let Some((x, M::Error(eid))) = &inst.ended_at else { continue };
        let path = cx.sc.topo.path_to(inst.pup).unwrap_or_default();
        let via_combine = path.contains(&"combine");
        let targets: Vec<&SubInfo> = if cx.has_share {
            cx.subs.iter().filter(|s| s.live_at(*x) && s.greeted_at.map_or(false, |g| g < *x)).collect()
        } else {
            inst.sub.map(|si| &cx.subs[si]).into_iter().filter(|s| s.live_at(*x)).collect()
        };
        for s in targets {
            let evs = cx.probe_edge(s);
            let same: Vec<&EdgeEv> =
                evs.iter().filter(|e| e.dir == Dir::Down && e.msg == M::Error(*eid)).collect();
            let other_err: Vec<&EdgeEv> = evs
                .iter()
                .filter(|e| e.dir == Dir::Down && matches!(e.msg, M::Error(y) if y != *eid) && e.start > *x)
                .collect();
            let term: Vec<&EdgeEv> =
                evs.iter().filter(|e| e.dir == Dir::Down && e.msg == M::Terminate && e.start > *x).collect();
            let tag = if via_combine { "(via-combine)" } else { "" };
            let who = format!("p{}.{} failed with Error#{eid} while s{}.{} was live", inst.pup, inst.inst, s.sink, s.sub);
            // the sink may legitimately dispose before the error reaches it (re-entrant disposal
            // during the failing delivery); then silence is what C03 demands
            let disposed_meanwhile = s.disposed_at.as_ref().map_or(false, |(d, _)| {
                let xs = cx.ix.span_of_enter[*x].unwrap();
                *d > *x && *d < cx.ix.spans[xs].end
            });
            if same.is_empty() {
                if disposed_meanwhile {
                    continue;
                }
                if !term.is_empty() {
                    out.push(finding(
                        "C05",
                        format!("C05:error-became-terminate{tag}"),
                        format!("{who}; the sink received Terminate instead"),
                        term[0].start,
                    ));
                } else if !other_err.is_empty() {
                    out.push(finding(
                        "C05",
                        format!("C05:error-value-changed{tag}"),
                        format!("{who}; the sink received a different error {}", other_err[0].msg.short()),
                        other_err[0].start,
                    ));
                } else {
                    out.push(finding(
                        "C05",
                        format!("C05:error-dropped{tag}"),
                        format!("{who}; the sink never received it"),
                        *x,
                    ));
                }
            } else if same.len() > 1 {
                out.push(finding(
                    "C05",
                    format!("C05:error-duplicated{tag}"),
                    format!("{who}; the sink received it {} times", same.len()),
                    same[1].start,
                ));
            } else if !cx.has_share && !via_combine {
                // "the remaining live upstreams are disposed": every other instance of this
                // subscription that was live when the failure began is told to stop exactly once
                for other in &cx.insts {
                    if other.sub != inst.sub || (other.pup, other.inst) == (inst.pup, inst.inst) {
                        continue;
                    }
                    if other.live_at(*x) && other.ended_at.is_none() && other.terms.len() != 1 {
                        out.push(finding(
                            "C05",
                            "C05:sibling-not-disposed",
                            format!(
                                "{who}; the live upstream p{}.{} received {} terminations",
                                other.pup,
                                other.inst,
                                other.terms.len()
                            ),
                            *x,
                        ));
                    }
                }
            }
        }
    }
    out
}

/// C17: no panics with conformant peers
pub fn c17(cx: &Ctx) -> Vec<Finding> {
    cx.h
        .log
        .iter()
        .enumerate()
        .filter_map(|(i, e)| match e {
            Ev::Panic { message, .. } if message.starts_with("harness:") => None,
            Ev::Panic { message, location } => {
                let file = location.rsplit('/').next().unwrap_or("").to_string();
                Some(finding("C17", format!("C17:panic@{file}"), format!("panic: {message} at {location}"), i))
            }
            _ => None,
        })
        .collect()
}
