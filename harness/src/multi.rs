//! A property decided over several engines at once (e.g. C01 over `world` scenarios and `clock`
//! scenarios): the first byte of the choice sequence selects the engine.

use crate::clock::{ClockEngine, ClockScn};
use crate::pipeline::{PipelineEngine, Prog};
use crate::props::{WCase, WorldEngine};
use crate::run::{Engine, Outcome};
use serde::{Deserialize, Serialize};

#[derive(Clone, Debug, Serialize, Deserialize)]
#[serde(untagged)]
pub enum AnyCase {
    World(WCase),
    Clock(ClockScn),
    Pipe(Prog),
}

pub struct MultiEngine {
    pub prop: &'static str,
    pub world: WorldEngine,
    /// weights out of 256 for clock and pipeline cases (the rest are world cases)
    pub w_clock: u32,
    pub w_pipe: u32,
}

impl MultiEngine {
    fn clock(&self) -> ClockEngine {
        ClockEngine { prop: self.prop }
    }
    fn adapt(&self, mut o: Outcome, engine: &str, multi_sub_same_source: bool) -> Outcome {
        // C13 on interval: the per-subscription tick model is exactly "behaves as if it were the only one"
        if self.prop == "C13" && engine == "clock" {
            for f in o.findings.iter_mut() {
                if f.prop == "C16" && f.sig == "C16:tick-model" && multi_sub_same_source {
                    f.prop = "C13";
                    f.sig = "C13:interval-differs-from-solo-model".into();
                }
            }
            o.nontrivial = o.nontrivial && multi_sub_same_source;
        }
        o.classes.push(format!("engine:{engine}"));
        o
    }
}

impl Engine for MultiEngine {
    type Case = AnyCase;
    fn name(&self) -> &'static str {
        "multi"
    }
    fn decode(&self, bytes: &[u8]) -> AnyCase {
        let b = bytes.first().copied().unwrap_or(0) as u32;
        let rest = if bytes.is_empty() { bytes } else { &bytes[1..] };
        // low bytes select the world engine so that shrinking moves towards it
        if b >= 256 - self.w_clock {
            AnyCase::Clock(self.clock().decode(rest))
        } else if b >= 256 - self.w_clock - self.w_pipe {
            AnyCase::Pipe(PipelineEngine.decode(rest))
        } else {
            AnyCase::World(self.world.decode(rest))
        }
    }
    fn eval(&self, case: &AnyCase) -> Outcome {
        match case {
            AnyCase::World(c) => {
                let o = self.world.eval(c);
                self.adapt(o, "world", false)
            }
            AnyCase::Clock(c) => {
                let o = self.clock().eval(c);
                let mut srcs: Vec<u8> = c
                    .steps
                    .iter()
                    .filter_map(|s| if let crate::clock::CStep::Subscribe { src, .. } = s { Some(*src % c.periods.len() as u8) } else { None })
                    .collect();
                let n = srcs.len();
                srcs.sort();
                srcs.dedup();
                self.adapt(o, "clock", srcs.len() < n)
            }
            AnyCase::Pipe(c) => {
                let o = PipelineEngine.eval(c);
                self.adapt(o, "pipeline", false)
            }
        }
    }
    fn render(&self, case: &AnyCase) -> String {
        match case {
            AnyCase::World(c) => self.world.render(c),
            AnyCase::Clock(c) => self.clock().render(c),
            AnyCase::Pipe(c) => PipelineEngine.render(c),
        }
    }
    fn minimise(&self, case: &AnyCase, still_fails: &mut dyn FnMut(&AnyCase) -> bool) -> AnyCase {
        match case {
            AnyCase::World(c) => AnyCase::World(self.world.minimise(c, &mut |x| still_fails(&AnyCase::World(x.clone())))),
            AnyCase::Clock(c) => AnyCase::Clock(self.clock().minimise(c, &mut |x| still_fails(&AnyCase::Clock(x.clone())))),
            AnyCase::Pipe(c) => AnyCase::Pipe(PipelineEngine.minimise(c, &mut |x| still_fails(&AnyCase::Pipe(x.clone())))),
        }
    }
}
