//! `pipeline` engine (C06): iterable programs pipe!(from_iter(xs), stages.., for_each(f)) against
//! the corresponding std::iter program.

use crate::hist::*;
use crate::oracle::{finding, Finding};
use crate::run::{Engine, Outcome};
use crate::scn::Dec;
use crate::world::{self, map_fn, pred_fn, red_fn, tap, CountingIter, Src, World};
use serde::{Deserialize, Serialize};
use std::cell::RefCell;
use std::panic::{self, AssertUnwindSafe};
use std::rc::Rc;
use std::sync::Arc;

#[derive(Clone, Debug, Serialize, Deserialize, PartialEq)]
pub enum PSrc {
    /// finite iterator: start, start+1, ..
    Iter { leaf: u8, n: u8, start: i64 },
    /// unbounded iterator start, start+step, ..
    Unbounded { leaf: u8, start: i64, step: i64 },
    Concat(Vec<Pipe>),
}

#[derive(Clone, Debug, Serialize, Deserialize, PartialEq)]
pub enum Stage {
    Map(u8),
    Filter(u8),
    Scan(u8, i64),
    Take(u8),
    Skip(u8),
    ConcatWith(Vec<Pipe>),
    /// map-then-flatten: g(v) = pipes[v mod len]
    FlatMap(Vec<Pipe>),
}

#[derive(Clone, Debug, Serialize, Deserialize, PartialEq)]
pub struct Pipe {
    pub src: PSrc,
    pub stages: Vec<Stage>,
}

#[derive(Clone, Debug, Serialize, Deserialize, PartialEq)]
pub struct Prog {
    pub pipe: Pipe,
}

// ------------------------------------------------------------------ generation

struct PGen<'a, 'b> {
    d: &'b mut Dec<'a>,
    n_leaf: u8,
}

impl<'a, 'b> PGen<'a, 'b> {
    fn leaf(&mut self) -> u8 {
        let l = self.n_leaf;
        self.n_leaf = self.n_leaf.saturating_add(1);
        l
    }
    fn simple_stage(&mut self) -> Stage {
        match self.d.below(5) {
            0 => Stage::Map(self.d.below(5) as u8),
            1 => Stage::Filter(self.d.below(5) as u8),
            2 => Stage::Scan(self.d.below(4) as u8, self.d.below(7) as i64 - 2),
            // 255 stands for usize::MAX (scn::count_param)
            3 => Stage::Take(match self.d.below(16) {
                15 => 255,
                14 => 254,
                _ => 1 + self.d.below(6) as u8,
            }),
            _ => Stage::Skip(match self.d.below(16) {
                15 => 255,
                14 => 254,
                _ => self.d.below(6) as u8,
            }),
        }
    }
    fn pipes(&mut self, depth: usize, max: usize) -> Vec<Pipe> {
        let n = 1 + self.d.below(max);
        (0..n).map(|_| self.pipe(depth)).collect()
    }
    fn pipe(&mut self, depth: usize) -> Pipe {
        let mut stages = vec![];
        let src = match self.d.below(if depth > 0 { 8 } else { 7 }) {
            0..=4 => {
                let n = self.d.pick(&[3u8, 0, 1, 2, 4, 5, 8, 6]);
                PSrc::Iter { leaf: self.leaf(), n, start: self.d.below(5) as i64 }
            }
            5 | 6 => {
                // unbounded input: only map/scan before the bounding take
                let s = PSrc::Unbounded {
                    leaf: self.leaf(),
                    start: self.d.below(5) as i64 - 2,
                    step: 1 + self.d.below(3) as i64,
                };
                for _ in 0..self.d.below(3) {
                    let st = match self.d.below(2) {
                        0 => Stage::Map(self.d.below(5) as u8),
                        _ => Stage::Scan(self.d.below(4) as u8, self.d.below(7) as i64 - 2),
                    };
                    stages.push(st);
                }
                stages.push(Stage::Take(1 + self.d.below(7) as u8));
                s
            }
            _ => PSrc::Concat(self.pipes(depth - 1, 3)),
        };
        let n = self.d.below(if depth >= 2 { 6 } else { 4 });
        for _ in 0..n {
            if stages.len() >= 7 {
                break;
            }
            let k = self.d.below(if depth > 0 { 9 } else { 7 });
            let st = match k {
                0..=6 => self.simple_stage(),
                7 => Stage::ConcatWith(self.pipes(depth - 1, 2)),
                _ => Stage::FlatMap(self.pipes(depth - 1, 3)),
            };
            stages.push(st);
        }
        Pipe { src, stages }
    }
}

pub fn decode_prog(bytes: &[u8]) -> Prog {
    let mut dec = Dec::new(bytes);
    let mut g = PGen { d: &mut dec, n_leaf: 0 };
    let depth = g.d.below(3);
    Prog { pipe: g.pipe(depth) }
}

// ------------------------------------------------------------------ reference (std::iter)

#[derive(Clone, Debug, Default, PartialEq, Eq, PartialOrd, Ord)]
pub struct LeafUse {
    pub leaf: u8,
    pub somes: u32,
    pub nones: u32,
}

struct RefLeaf {
    leaf: u8,
    pos: u32,
    n: Option<u32>,
    start: i64,
    step: i64,
    uses: Rc<RefCell<Vec<LeafUse>>>,
    idx: Option<usize>,
}

impl Iterator for RefLeaf {
    type Item = i64;
    fn next(&mut self) -> Option<i64> {
        let idx = *self.idx.get_or_insert_with(|| {
            let mut u = self.uses.borrow_mut();
            u.push(LeafUse { leaf: self.leaf, somes: 0, nones: 0 });
            u.len() - 1
        });
        if self.n.map_or(false, |n| self.pos >= n) {
            self.uses.borrow_mut()[idx].nones += 1;
            None
        } else {
            let v = self.start.wrapping_add(self.step.wrapping_mul(self.pos as i64));
            self.pos += 1;
            self.uses.borrow_mut()[idx].somes += 1;
            Some(v)
        }
    }
}

fn ref_pipe<'a>(p: &'a Pipe, uses: &Rc<RefCell<Vec<LeafUse>>>) -> Box<dyn Iterator<Item = i64> + 'a> {
    let mut it: Box<dyn Iterator<Item = i64> + 'a> = match &p.src {
        PSrc::Iter { leaf, n, start } => Box::new(RefLeaf {
            leaf: *leaf,
            pos: 0,
            n: Some(*n as u32),
            start: *start,
            step: 1,
            uses: Rc::clone(uses),
            idx: None,
        }),
        PSrc::Unbounded { leaf, start, step } => Box::new(RefLeaf {
            leaf: *leaf,
            pos: 0,
            n: None,
            start: *start,
            step: *step,
            uses: Rc::clone(uses),
            idx: None,
        }),
        PSrc::Concat(ps) => {
            let uses = Rc::clone(uses);
            Box::new(ps.iter().flat_map(move |q| ref_pipe(q, &uses)))
        }
    };
    for st in &p.stages {
        it = match st {
            Stage::Map(f) => {
                let f = *f;
                Box::new(it.map(move |x| map_fn(f, x)))
            }
            Stage::Filter(q) => {
                let q = *q;
                Box::new(it.filter(move |x| pred_fn(q, *x)))
            }
            Stage::Scan(r, seed) => {
                let r = *r;
                Box::new(it.scan(*seed, move |acc, x| {
                    *acc = red_fn(r, *acc, x);
                    Some(*acc)
                }))
            }
            Stage::Take(n) => Box::new(it.take(crate::scn::count_param(*n))),
            Stage::Skip(n) => Box::new(it.skip(crate::scn::count_param(*n))),
            Stage::ConcatWith(ps) => {
                let uses = Rc::clone(uses);
                Box::new(it.chain(ps.iter().flat_map(move |q| ref_pipe(q, &uses))))
            }
            Stage::FlatMap(ps) => {
                let uses = Rc::clone(uses);
                let n = ps.len() as i64;
                Box::new(it.flat_map(move |x| ref_pipe(&ps[x.rem_euclid(n) as usize], &uses)))
            }
        };
    }
    it
}

pub fn reference(prog: &Prog) -> (Vec<i64>, Vec<LeafUse>) {
    let uses = Rc::new(RefCell::new(vec![]));
    let out: Vec<i64> = ref_pipe(&prog.pipe, &uses).collect();
    let mut u = uses.borrow().clone();
    u.sort();
    (out, u)
}

// ------------------------------------------------------------------ the real pipeline

type StageFn = Box<dyn Fn(Src<i64>) -> Src<i64>>;

fn real_src(w: &Arc<World>, p: &Pipe, nested: bool) -> Src<i64> {
    let src: Src<i64> = match &p.src {
        PSrc::Iter { leaf, n, start } => tap(
            w,
            *leaf,
            Arc::new(callbag::from_iter(CountingIter::custom(w, *leaf, Some(*n as u32), *start, 1))),
        ),
        PSrc::Unbounded { leaf, start, step } => {
            tap(w, *leaf, Arc::new(callbag::from_iter(CountingIter::custom(w, *leaf, None, *start, *step))))
        }
        PSrc::Concat(ps) => {
            let m: Vec<Src<i64>> = ps.iter().map(|q| real_src(w, q, nested)).collect();
            Arc::new(match m.len() {
                1 => callbag::concat!(m[0].clone()),
                2 => callbag::concat!(m[0].clone(), m[1].clone()),
                3 => callbag::concat!(m[0].clone(), m[1].clone(), m[2].clone()),
                _ => callbag::concat(m.into_boxed_slice()),
            })
        }
    };
    let stages: Vec<StageFn> = p.stages.iter().map(|s| real_stage(w, s, nested)).collect();
    apply_stages(src, stages, nested)
}

fn real_stage(w: &Arc<World>, st: &Stage, nested: bool) -> StageFn {
    let w = Arc::clone(w);
    match st {
        Stage::Map(f) => {
            let f = *f;
            Box::new(move |s| {
                let w = Arc::clone(&w);
                Arc::new(callbag::map(move |x: i64| {
                    let r = map_fn(f, x);
                    w.call(CallKind::MapF, f as u16, vec![Val::I(x)], Some(Val::I(r)));
                    r
                })(s))
            })
        }
        Stage::Filter(q) => {
            let q = *q;
            Box::new(move |s| {
                let w = Arc::clone(&w);
                Arc::new(callbag::filter(move |x: &i64| {
                    let r = pred_fn(q, *x);
                    w.call(CallKind::FilterP, q as u16, vec![Val::I(*x)], Some(Val::I(r as i64)));
                    r
                })(s))
            })
        }
        Stage::Scan(r, seed) => {
            let (r, seed) = (*r, *seed);
            Box::new(move |s| {
                let w = Arc::clone(&w);
                Arc::new(callbag::scan(
                    move |acc: i64, x: i64| {
                        let v = red_fn(r, acc, x);
                        w.call(CallKind::ScanR, r as u16, vec![Val::I(acc), Val::I(x)], Some(Val::I(v)));
                        v
                    },
                    seed,
                )(s))
            })
        }
        Stage::Take(n) => {
            let n = crate::scn::count_param(*n);
            Box::new(move |s| Arc::new(callbag::take(n)(s)))
        }
        Stage::Skip(n) => {
            let n = crate::scn::count_param(*n);
            Box::new(move |s| Arc::new(callbag::skip(n)(s)))
        }
        Stage::ConcatWith(ps) => {
            let rest: Vec<Src<i64>> = ps.iter().map(|q| real_src(&w, q, nested)).collect();
            Box::new(move |s| {
                let mut m = vec![s];
                m.extend(rest.iter().cloned());
                Arc::new(match m.len() {
                    2 => callbag::concat!(m[0].clone(), m[1].clone()),
                    3 => callbag::concat!(m[0].clone(), m[1].clone(), m[2].clone()),
                    _ => callbag::concat(m.into_boxed_slice()),
                })
            })
        }
        Stage::FlatMap(ps) => {
            let inners: Vec<Src<i64>> = ps.iter().map(|q| real_src(&w, q, nested)).collect();
            Box::new(move |s| {
                let inners = inners.clone();
                let n = inners.len() as i64;
                let w = Arc::clone(&w);
                let mapped: callbag::Source<Src<i64>> = callbag::map(move |x: i64| {
                    let k = x.rem_euclid(n) as usize;
                    w.call(CallKind::FlatMapG, 0, vec![Val::I(x)], Some(Val::Src(k as u16)));
                    Arc::clone(&inners[k])
                })(s);
                Arc::new(callbag::flatten(mapped))
            })
        }
    }
}

/// `nested == false`: through the pipe! macro (arity 2..=8); `nested == true`: explicit application.
fn apply_stages(src: Src<i64>, st: Vec<StageFn>, nested: bool) -> Src<i64> {
    if nested {
        let mut s = src;
        for f in &st {
            s = f(s);
        }
        return s;
    }
    use callbag::pipe;
    match st.len() {
        0 => src,
        1 => pipe!(src, st[0]),
        2 => pipe!(src, st[0], st[1]),
        3 => pipe!(src, st[0], st[1], st[2]),
        4 => pipe!(src, st[0], st[1], st[2], st[3]),
        5 => pipe!(src, st[0], st[1], st[2], st[3], st[4]),
        6 => pipe!(src, st[0], st[1], st[2], st[3], st[4], st[5]),
        7 => pipe!(src, st[0], st[1], st[2], st[3], st[4], st[5], st[6]),
        _ => {
            let mut s = src;
            for f in &st {
                s = f(s);
            }
            s
        }
    }
}

pub fn run_prog(prog: &Prog, nested: bool) -> History {
    world::install_panic_hook();
    let sc = crate::scn::decode(crate::scn::Profile::SelfCheck, &[], 0);
    let w = World::new(&sc);
    {
        let mut g = w.lock();
        g.log.push(Ev::Step { k: usize::MAX, tag: 0 });
    }
    world::take_last_panic();
    let r = panic::catch_unwind(AssertUnwindSafe(|| {
        let src = real_src(&w, &prog.pipe, nested);
        let w2 = Arc::clone(&w);
        let sink = callbag::for_each(move |x: i64| {
            w2.call(CallKind::ForEachF, 0, vec![Val::I(x)], None);
        });
        if nested {
            sink(tap(&w, 255, src));
        } else {
            use callbag::pipe;
            pipe!(tap(&w, 255, src), sink);
        }
    }));
    if let Err(p) = r {
        let (message, location) = world::take_last_panic().unwrap_or((world::payload_string(&p), String::new()));
        w.lock().log.push(Ev::Panic { message, location });
    }
    w.into_history()
}

// ------------------------------------------------------------------ oracle

pub fn c06(prog: &Prog, h: &History) -> Vec<Finding> {
    let mut out = vec![];
    if !h.panics().is_empty() {
        return out;
    }
    let (want, want_uses) = reference(prog);
    // (a) arguments of f
    let got: Vec<i64> = h
        .log
        .iter()
        .filter_map(|e| match e {
            Ev::Call { kind: CallKind::ForEachF, arg, .. } => match arg.first() {
                Some(Val::I(v)) => Some(*v),
                _ => None,
            },
            _ => None,
        })
        .collect();
    if got != want {
        let k = got.iter().zip(want.iter()).position(|(a, b)| a != b).unwrap_or(got.len().min(want.len()));
        let kind = if got.len() < want.len() && want.starts_with(&got) {
            "C06:stalled-or-truncated"
        } else if got.len() > want.len() && got.starts_with(&want) {
            "C06:extra-elements"
        } else {
            "C06:wrong-elements"
        };
        out.push(finding(
            "C06",
            kind,
            format!("f was called on {got:?} but the list function gives {want:?} (first difference at index {k})"),
            0,
        ));
    }
    // (b) completes without stalling: the edge into for_each has seen Terminate
    let completed = h.log.iter().any(|e| matches!(e, Ev::Enter(Site::TapDown { tap: 255, msg: M::Terminate, .. })));
    if !completed {
        out.push(finding("C06", "C06:not-completed", "the pipeline did not deliver Terminate to for_each by the time the subscribing call returned".to_string(), 0));
    }
    // (c) per from_iter leaf subscription: advanced only on demand
    let mut uses: Vec<LeafUse> = vec![];
    let mut per: std::collections::BTreeMap<(u8, u16), (u32, u32, u32, u32)> = Default::default(); // pulls, data, term, _
    for e in &h.log {
        if let Ev::Enter(site) = e {
            match site {
                Site::TapUp { tap, sub, msg: M::Pull } if *tap != 255 => per.entry((*tap, *sub)).or_default().0 += 1,
                Site::TapUp { tap, sub, msg: M::Handshake } if *tap != 255 => {
                    per.entry((*tap, *sub)).or_default();
                }
                Site::TapDown { tap, sub, msg: M::Data(_) } if *tap != 255 => {
                    let p = per.entry((*tap, *sub)).or_default();
                    p.1 += 1;
                    if p.1 > p.0 {
                        out.push(finding("C06", "C06:leaf-unrequested-data", format!("leaf {tap} subscription {sub} sent Data #{} after {} Pulls", p.1, p.0), 0));
                    }
                }
                Site::TapDown { tap, sub, msg: M::Terminate } if *tap != 255 => per.entry((*tap, *sub)).or_default().2 += 1,
                _ => {}
            }
        }
    }
    // next() calls per leaf (all subscriptions of a leaf together: the iterator cannot tell them apart)
    let mut nexts: std::collections::BTreeMap<u16, (u32, u32)> = Default::default();
    for e in &h.log {
        if let Ev::Call { kind: CallKind::IterNext, id, ret, .. } = e {
            let n = nexts.entry(*id).or_default();
            if ret.is_some() {
                n.0 += 1
            } else {
                n.1 += 1
            }
        }
    }
    let mut by_leaf: std::collections::BTreeMap<u8, (u32, u32)> = Default::default();
    for ((leaf, _sub), (_pulls, data, term, _)) in &per {
        let b = by_leaf.entry(*leaf).or_default();
        b.0 += data;
        b.1 += term;
        uses.push(LeafUse { leaf: *leaf, somes: *data, nones: *term });
    }
    for (leaf, (data, term)) in &by_leaf {
        let (somes, nones) = nexts.get(&(*leaf as u16)).copied().unwrap_or((0, 0));
        if somes != *data || nones != *term {
            out.push(finding(
                "C06",
                "C06:iterator-advanced-off-demand",
                format!("leaf {leaf}: next() returned {somes} items and {nones} Nones, but {data} items were delivered and exhaustion was signalled {term} times"),
                0,
            ));
        }
    }
    // stronger clause: every leaf subscription consumed exactly what the lazy std::iter program consumes
    uses.retain(|u| u.somes > 0 || u.nones > 0);
    uses.sort();
    let mut wu = want_uses.clone();
    wu.retain(|u| u.somes > 0 || u.nones > 0);
    if uses != wu && out.is_empty() {
        out.push(finding(
            "C06",
            "C06:leaf-consumption-differs",
            format!("per-subscription consumption (leaf, items, exhaustion probes) {uses:?} differs from the lazy reference {wu:?}"),
            0,
        ));
    }
    out
}

pub struct PipelineEngine;

fn n_stages(p: &Pipe) -> usize {
    let mut n = p.stages.len();
    if let PSrc::Concat(ps) = &p.src {
        n += 1 + ps.iter().map(n_stages).sum::<usize>();
    }
    for s in &p.stages {
        if let Stage::ConcatWith(ps) | Stage::FlatMap(ps) = s {
            n += ps.iter().map(n_stages).sum::<usize>();
        }
    }
    n
}

fn has_boundary(prog: &Prog, want: &[i64]) -> bool {
    fn any_src(p: &Pipe, f: &dyn Fn(&PSrc) -> bool) -> bool {
        if f(&p.src) {
            return true;
        }
        if let PSrc::Concat(ps) = &p.src {
            if ps.iter().any(|q| any_src(q, f)) {
                return true;
            }
        }
        p.stages.iter().any(|s| match s {
            Stage::ConcatWith(ps) | Stage::FlatMap(ps) => ps.iter().any(|q| any_src(q, f)),
            _ => false,
        })
    }
    want.is_empty()
        || any_src(&prog.pipe, &|s| matches!(s, PSrc::Unbounded { .. } | PSrc::Iter { n: 0, .. }))
}

impl Engine for PipelineEngine {
    type Case = Prog;
    fn name(&self) -> &'static str {
        "pipeline"
    }
    fn decode(&self, bytes: &[u8]) -> Prog {
        decode_prog(bytes)
    }
    fn eval(&self, prog: &Prog) -> Outcome {
        let h = run_prog(prog, false);
        let mut findings = c06(prog, &h);
        // (d) pipe! is plain left-to-right application
        let h2 = run_prog(prog, true);
        if h.digest() != h2.digest() {
            findings.push(finding("C06", "C06:pipe-macro-differs", "pipe!(a, f1, .., fk) behaved differently from fk(..f1(a))".to_string(), 0));
        }
        for (message, location) in h.panics() {
            let file = location.rsplit('/').next().unwrap_or("").to_string();
            findings.push(finding("C17", format!("C17:panic@{file}"), format!("panic: {message} at {location}"), 0));
        }
        let (want, _) = reference(prog);
        let nontrivial = n_stages(&prog.pipe) >= 2 || has_boundary(prog, &want);
        let mut classes = vec![format!("stages:{}", n_stages(&prog.pipe).min(8))];
        if want.is_empty() {
            classes.push("empty_result".into());
        }
        fn has(p: &Pipe, f: &dyn Fn(&Stage) -> bool) -> bool {
            p.stages.iter().any(|s| {
                f(s) || match s {
                    Stage::ConcatWith(ps) | Stage::FlatMap(ps) => ps.iter().any(|q| has(q, f)),
                    _ => false,
                }
            }) || matches!(&p.src, PSrc::Concat(ps) if ps.iter().any(|q| has(q, f)))
        }
        if has(&prog.pipe, &|s| matches!(s, Stage::FlatMap(_))) {
            classes.push("flat_map".into());
        }
        if has(&prog.pipe, &|s| matches!(s, Stage::ConcatWith(_))) || matches!(prog.pipe.src, PSrc::Concat(_)) {
            classes.push("concat".into());
        }
        if has(&prog.pipe, &|s| matches!(s, Stage::Take(_))) {
            classes.push("take".into());
        }
        Outcome {
            findings,
            nontrivial,
            digest: h.digest(),
            classes,
            skipped_by_guard: 0,
            harness_errors: h.harness_errors.clone(),
        }
    }
    fn render(&self, prog: &Prog) -> String {
        let h = run_prog(prog, false);
        let (want, _) = reference(prog);
        let r = h.render();
        let short: String = r.chars().take(1500).collect();
        format!("reference={want:?} history={short}")
    }
    fn minimise(&self, prog: &Prog, still_fails: &mut dyn FnMut(&Prog) -> bool) -> Prog {
        let mut cur = prog.clone();
        let mut budget = 4000;
        'outer: loop {
            for c in shrink_pipe(&cur.pipe) {
                if budget == 0 {
                    break 'outer;
                }
                budget -= 1;
                let cand = Prog { pipe: c };
                if still_fails(&cand) {
                    cur = cand;
                    continue 'outer;
                }
            }
            break;
        }
        cur
    }
}

fn shrink_pipe(p: &Pipe) -> Vec<Pipe> {
    let mut out = vec![];
    // drop stages
    for i in 0..p.stages.len() {
        // never remove the bounding take of an unbounded source
        if matches!(p.src, PSrc::Unbounded { .. }) {
            let first_take = p.stages.iter().position(|s| matches!(s, Stage::Take(_)));
            if Some(i) == first_take {
                continue;
            }
        }
        let mut q = p.clone();
        q.stages.remove(i);
        out.push(q);
    }
    // replace by a sub-pipeline
    if let PSrc::Concat(ps) = &p.src {
        for q in ps {
            out.push(q.clone());
            let mut r = p.clone();
            r.src = q.src.clone();
            r.stages = q.stages.iter().cloned().chain(p.stages.iter().cloned()).collect();
            out.push(r);
        }
        if ps.len() > 1 {
            for i in 0..ps.len() {
                let mut v = ps.clone();
                v.remove(i);
                out.push(Pipe { src: PSrc::Concat(v), stages: p.stages.clone() });
            }
        }
        for (i, q) in ps.iter().enumerate() {
            for s in shrink_pipe(q) {
                let mut v = ps.clone();
                v[i] = s;
                out.push(Pipe { src: PSrc::Concat(v), stages: p.stages.clone() });
            }
        }
    }
    match &p.src {
        PSrc::Iter { leaf, n, start } if *n > 0 => {
            out.push(Pipe { src: PSrc::Iter { leaf: *leaf, n: n - 1, start: *start }, stages: p.stages.clone() })
        }
        PSrc::Unbounded { leaf, start, step } => {
            out.push(Pipe { src: PSrc::Iter { leaf: *leaf, n: 8, start: *start }, stages: p.stages.clone() });
            if *step != 1 {
                out.push(Pipe { src: PSrc::Unbounded { leaf: *leaf, start: *start, step: 1 }, stages: p.stages.clone() });
            }
        }
        _ => {}
    }
    // stage parameters and nested pipelines
    for (i, s) in p.stages.iter().enumerate() {
        let mut push = |ns: Stage| {
            let mut q = p.clone();
            q.stages[i] = ns;
            out.push(q);
        };
        match s {
            Stage::Take(254 | 255) => push(Stage::Take(6)),
            Stage::Skip(254 | 255) => push(Stage::Skip(6)),
            Stage::Take(n) if *n > 1 => push(Stage::Take(n - 1)),
            Stage::Skip(n) if *n > 0 => push(Stage::Skip(n - 1)),
            Stage::ConcatWith(ps) | Stage::FlatMap(ps) => {
                let is_cat = matches!(s, Stage::ConcatWith(_));
                let mk = |v: Vec<Pipe>| if is_cat { Stage::ConcatWith(v) } else { Stage::FlatMap(v) };
                if ps.len() > 1 {
                    for k in 0..ps.len() {
                        let mut v = ps.clone();
                        v.remove(k);
                        push(mk(v));
                    }
                }
                for (k, q) in ps.iter().enumerate() {
                    for sq in shrink_pipe(q) {
                        let mut v = ps.clone();
                        v[k] = sq;
                        push(mk(v));
                    }
                }
            }
            _ => {}
        }
    }
    out
}
