//! Entry points for the coverage-guided (libFuzzer) targets: bytes -> case -> the same interpreter and
//! the same oracles as the proptest campaigns, inside the target. Known findings are tolerated
//! in-target; an unlisted finding of the selected property writes the case and aborts.

use crate::oracle::{self, Ctx, Finding};
use crate::run::{Engine, KnownFile};
use crate::scn::{self, Profile};
use crate::{counts, models, pipeline, props, world};
use std::sync::OnceLock;

static KNOWN: OnceLock<KnownFile> = OnceLock::new();

fn known() -> &'static KnownFile {
    KNOWN.get_or_init(|| {
        let dir = std::env::var("VERIF_DIR").unwrap_or_else(|_| "/verif".into());
        crate::run::load_known(&dir)
    })
}

/// the property whose findings abort the target (all of them when unset)
fn selected() -> Option<String> {
    std::env::var("CBV_FUZZ_PROP").ok().filter(|s| !s.is_empty())
}

const PROFILES: [Profile; 21] = [
    Profile::Refuse,
    Profile::AnySingle,
    Profile::Composed,
    Profile::Composed,
    Profile::Share,
    Profile::ShareNested,
    Profile::ForEach,
    Profile::Indep,
    Profile::PullCount,
    Profile::FromIterDirect,
    Profile::AnySingle,
    Profile::Dual(scn::Op::Take),
    Profile::Dual(scn::Op::Scan),
    Profile::Dual(scn::Op::Merge),
    Profile::Dual(scn::Op::Concat),
    Profile::Dual(scn::Op::Combine),
    Profile::Dual(scn::Op::Flatten),
    Profile::Dual(scn::Op::Filter),
    Profile::Dual(scn::Op::Skip),
    Profile::LateAny,
    Profile::LateShare,
];

pub fn world_findings(profile: Profile, sc: &scn::Scenario) -> Vec<Finding> {
    let h = world::run(sc);
    let cx = Ctx::new(sc, &h);
    let mut f = vec![];
    f.extend(oracle::c01(&cx));
    f.extend(oracle::c02(&cx));
    f.extend(oracle::c03(&cx));
    f.extend(oracle::c04(&cx));
    f.extend(oracle::c05(&cx));
    f.extend(oracle::c17(&cx));
    let all_puppets = {
        let mut ok = true;
        sc.topo.visit(&mut |t| {
            if matches!(t, scn::Topo::FromIter { .. }) {
                ok = false
            }
        });
        ok
    };
    let dual = matches!(profile, Profile::Dual(_));
    if all_puppets && ((sc.sinks.len() == 1 && sc.attach_first) || dual) && sc.sink_kind == scn::SinkKind::Probe && !matches!(profile, Profile::LateAny | Profile::LateShare | Profile::Refuse) {
        f.extend(models::c07(&cx));
        f.extend(models::c08(&cx));
        f.extend(models::c09(&cx));
        f.extend(models::c10(&cx));
        f.extend(models::c11(&cx));
    }
    match profile {
        Profile::Share => f.extend(models::c12(&cx)),
        Profile::Indep | Profile::Dual(_) => f.extend(counts::c13(&cx)),
        Profile::PullCount => f.extend(counts::c14(&cx)),
        Profile::FromIterDirect => f.extend(counts::c15(&cx)),
        _ => {}
    }
    // late greeters under operators other than merge! are judged for C01 (and C17 except under share) only:
    // the other protocol properties are known not to hold there on the unchanged tree (outside their quantifier)
    match profile {
        Profile::LateAny => f.retain(|x| x.prop == "C01" || x.prop == "C17"),
        Profile::LateShare => f.retain(|x| x.prop == "C01"),
        // a source that refuses its subscription is conformant only in the sense of C01's sanctioned exception
        Profile::Refuse => f.retain(|x| x.prop == "C05"),
        _ => {}
    }
    if !h.harness_errors.is_empty() {
        f.push(oracle::finding("SELF", "SELF:harness-error", format!("{:?}", h.harness_errors), 0));
    }
    f
}

fn report(kind: &str, case_json: String, bad: &[&Finding]) -> ! {
    let dir = std::env::var("CBV_FUZZ_OUT").unwrap_or_else(|_| "/tmp".into());
    let _ = std::fs::create_dir_all(&dir);
    let path = format!("{dir}/fuzz-violation-{kind}.json");
    let doc = serde_json::json!({
        "engine": kind,
        "findings": bad.iter().map(|f| serde_json::json!({"property": f.prop, "sig": f.sig, "detail": f.detail})).collect::<Vec<_>>(),
        "case": serde_json::from_str::<serde_json::Value>(&case_json).unwrap_or(serde_json::Value::Null),
    });
    let _ = std::fs::write(&path, serde_json::to_string_pretty(&doc).unwrap());
    eprintln!("FUZZ-VIOLATION {} {} -> {path}", bad[0].prop, bad[0].sig);
    std::process::abort();
}

pub fn fuzz_world(data: &[u8]) {
    if data.is_empty() {
        return;
    }
    let profile = PROFILES[(data[0] as usize * PROFILES.len()) >> 8];
    let mut sc = scn::decode(profile, &data[1..], 48);
    let sel = selected();
    if !sel.as_deref().map_or(false, |s| scn::TEARDOWN_PROPS.contains(&s)) {
        scn::strip_teardown(&mut sc);
    }
    let findings = world_findings(profile, &sc);
    let bad: Vec<&Finding> = findings
        .iter()
        .filter(|f| sel.as_deref().map_or(true, |s| s == f.prop || f.prop == "SELF"))
        .filter(|f| known().matches(f).is_none())
        .collect();
    if !bad.is_empty() {
        let case = props::WCase { profile, sc };
        report("world", serde_json::to_string(&case).unwrap(), &bad);
    }
}

pub fn fuzz_pipeline(data: &[u8]) {
    let eng = pipeline::PipelineEngine;
    let prog = eng.decode(data);
    let o = eng.eval(&prog);
    let sel = selected();
    let bad: Vec<&Finding> = o
        .findings
        .iter()
        .filter(|f| sel.as_deref().map_or(true, |s| s == f.prop))
        .filter(|f| known().matches(f).is_none())
        .collect();
    if !bad.is_empty() {
        report("pipeline", serde_json::to_string(&prog).unwrap(), &bad);
    }
}

pub fn fuzz_clock(data: &[u8]) {
    let eng = crate::clock::ClockEngine { prop: "C16" };
    let cs = eng.decode(data);
    let o = eng.eval(&cs);
    let sel = selected();
    let bad: Vec<&Finding> = o
        .findings
        .iter()
        .filter(|f| sel.as_deref().map_or(true, |s| s == f.prop))
        .filter(|f| known().matches(f).is_none())
        .collect();
    if !bad.is_empty() {
        report("clock", serde_json::to_string(&cs).unwrap(), &bad);
    }
}
